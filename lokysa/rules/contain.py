"""Containment of task-level failures (C04).

R-EXC-BREADTH, R-FEEDER, R-FEEDER-HOOK, R-CAUSE, R-PAIR (feeder write lock).
"""
import ast

from ..model import func_nodes, norm, AnalysisError
from ..cfg import calls_in, _walk_noscope
from .util import (inline_locals, none_test, node_has_effect, effect_nodes, calls_method_of, recv_call, stmt_of, parent, cfg_nodes, attr_call)
from .liveness import broken_pred, resolve_pred, wake_pred
from .broken import kill_pred
from .timeouts import _item_name, _is_call_of_item, _sends_result

PE = "loky.process_executor"


def _catch_all(h):
    return h.ast.type is None or norm(h.ast.type) == "BaseException"


def _handlers_of(g, n):
    return [m for m, l in n.succ if l == "exc" and m.kind == "except"]


def r_exc_breadth(e, R):
    a = e.anchors
    # (1) the task call in the worker
    f = a.worker_main
    g = e.cfg(f)
    gets = [n for n in g.nodes for c in calls_in(n) if e.receiver_objs(f, c, ("get",)) & a.callq]
    getn = gets[0]
    calln = [n for n in g.nodes if n.kind == "stmt" and any(_is_call_of_item(e, f, c, getn) for c in calls_in(n))]
    if not calln:
        raise AnalysisError("worker: task call not found")
    for cn in calln:
        hs = _handlers_of(g, cn)
        ca = [h for h in hs if _catch_all(h)]
        R.check(bool(ca), "R-EXC-BREADTH", "worker: the task call is enclosed by a BaseException handler", f.short, norm(cn.ast),
                f"the task call is guarded by {[norm(h.ast.type) for h in hs] or 'no handler'}: SystemExit / KeyboardInterrupt "
                "raised by a task would take the worker down (broken pool) instead of failing only its own future",
                e.loc(f, cn.ast))
        for h in ca:
            send = [n for n in g.nodes for c in calls_in(n) if _sends_result(e, f, c) and g.dominates(h, n)]
            esc = g.find_path(h, lambda n: n is g.exit or n is g.raise_exit or n is getn, avoid=send, use_exc=False)
            R.check(esc is None and bool(send), "R-EXC-BREADTH", "worker: the handler sends the exception back for the same task", f.short,
                    "except BaseException -> result_queue.put(_ResultItem(work_id, exception=...))",
                    "the handler of the task call does not send the failure back (future never resolves) or leaves the loop",
                    e.loc(f, h.ast))
            # the id sent is the one of the task that ran
            item = _item_name(e, f, getn)
            ok_id = False
            for n in send:
                for c in calls_in(n):
                    for x in ast.walk(c):
                        if isinstance(x, ast.Attribute) and x.attr == "work_id" and isinstance(x.value, ast.Name) and x.value.id == item:
                            ok_id = True
            R.check(ok_id, "R-EXC-BREADTH", "worker: the failure is reported under the task's own work id", f.short, f"{item}.work_id",
                    "the failure of a task is reported under a different work id", e.loc(f, h.ast))
            rer = [n for n in g.nodes if n.kind == "stmt" and isinstance(n.ast, ast.Raise) and g.dominates(h, n)]
            R.check(not rer, "R-EXC-BREADTH", "worker: the handler does not re-raise", f.short, "raise in handler",
                    "the task-call handler re-raises: the worker dies on a task exception", e.loc(f, h.ast))
    # (1b) whatever carries user data back (the result *or* the exception of the task) is sent in a way that survives a pickling
    # failure: through the safe-send helper or inside a BaseException handler that reports the failure for the same task
    for n in g.nodes:
        for c in calls_in(n):
            if e.receiver_objs(f, c, ("put",)) & a.resq and c.args and isinstance(c.args[0], ast.Call) and \
                    any(k.arg in ("exception", "result") for k in c.args[0].keywords):
                hs = _handlers_of(g, n)
                # accepted: the send sits in a try with a catch-all handler, or it *is* the fallback report inside such a handler
                # (the try body it reports for contains a send to the same queue)
                ih = _innermost_handler(e, c, f)
                tr_ = e.prog.parent.get(id(ih)) if ih is not None else None
                fallback = ih is not None and isinstance(tr_, ast.Try) and (ih.type is None or norm(ih.type).split(".")[-1] in ("BaseException", "Exception")) and any(
                    e.receiver_objs(f, c2, ("put",)) & a.resq for s_ in tr_.body for c2 in ast.walk(s_) if isinstance(c2, ast.Call))
                ok_ = any(_catch_all(h) for h in hs) or fallback
                R.check(ok_, "R-EXC-BREADTH", "worker: a result item carrying user data is sent pickling-safely", f.short, norm(c)[:70],
                        "the outcome of a task (here its exception) is put on the result queue bare: if it cannot be pickled the PicklingError leaves the worker loop, the "
                        "worker dies and the whole pool is flagged broken because of one task", e.loc(f, c))
    # (2) result send helper: pickling failure of the result is converted into an exception result
    helpers = set()
    for n in g.nodes:
        for c in calls_in(n):
            for q in e.callees_of(c):
                hf = e.prog.funcs[q]
                if any(isinstance(x, ast.Attribute) and x.attr == "put" and isinstance(x.value, ast.Name) and x.value.id in hf.params for x in func_nodes(hf)):
                    helpers.add(hf)
    R.check(bool(helpers), "R-EXC-BREADTH", "worker: results are sent through the safe-send helper", f.short, "_sendback_result",
            "results are no longer sent through a helper guarding against unpicklable results", e.loc(f, f.node))
    for hf in helpers:
        hg = e.cfg(hf)
        def is_put(c, hf=hf):
            fn_ = c.func
            if isinstance(fn_, ast.Name) and len(e.local_defs(hf, fn_.id)) == 1:
                fn_ = e.local_defs(hf, fn_.id)[0]            # `put = result_queue.put` bound once to a local
            return isinstance(fn_, ast.Attribute) and fn_.attr == "put"
        puts = [n for n in hg.nodes for c in calls_in(n) if is_put(c)]
        first = [n for n in puts if _handlers_of(hg, n)]
        R.check(bool(first) and all(any(_catch_all(h) for h in _handlers_of(hg, n)) for n in first), "R-EXC-BREADTH",
                f"{hf.short}: the result put is enclosed by a BaseException handler", hf.short, "try: result_queue.put(...) except BaseException",
                "a result that cannot be pickled/sent is not converted into an exception for its own future", e.loc(hf, hf.node))
        # put() pickles the result before writing it: ANY exception class can come out of the user's __reduce__ / __getstate__
        # (an OSError from a reducer doing I/O looks exactly like a broken pipe).  A narrower handler in front of the catch-all that
        # re-raises, or does not report, lets such a result escape the worker loop: the worker dies, the pool breaks
        for n in first:
            for h in _handlers_of(hg, n):
                if _catch_all(h):
                    continue
                reports = any(k.arg == "exception" for m in puts if hg.dominates(h, m) for c in calls_in(m) for x in ast.walk(c) if isinstance(x, ast.Call) for k in x.keywords)
                reraises = any(isinstance(x, ast.Raise) for s_ in h.ast.body for x in ast.walk(s_))
                R.check(reports and not reraises, "R-EXC-BREADTH", f"{hf.short}: every handler of the result put reports the failure for the task", hf.short,
                        f"except {norm(h.ast.type)}: " + ("raise" if reraises else "<no report>"),
                        f"the handler `except {norm(h.ast.type)}` in front of the catch-all lets a result whose pickling raises {norm(h.ast.type)} (a reducer doing I/O) "
                        "escape the safe-send helper and the worker loop: the worker dies and every pending future gets TerminatedWorkerError", e.loc(hf, h.ast))
        for n in first:
            for h in _handlers_of(hg, n):
                if not _catch_all(h):
                    continue
                again = [m for m in puts if hg.dominates(h, m)]
                ok = False
                for m in again:
                    for c in calls_in(m):
                        if any(k.arg == "exception" for x in ast.walk(c) if isinstance(x, ast.Call) for k in x.keywords):
                            ok = True
                R.check(ok, "R-EXC-BREADTH", f"{hf.short}: the handler sends an exception result for the same work id", hf.short,
                        "result_queue.put(_ResultItem(work_id, exception=exc))", "the pickling failure of a result is swallowed", e.loc(hf, h.ast))
    # (3) done-callbacks
    fut = e.prog.func("loky._base:Future._invoke_callbacks")
    fg = e.cfg(fut)
    cbs = [n for n in fg.nodes for c in calls_in(n) if isinstance(c.func, ast.Name) and c.func.id in fut.locals
           and c.args and isinstance(c.args[0], ast.Name) and c.args[0].id == fut.params[0]]
    R.check(bool(cbs), "R-EXC-BREADTH", "Future._invoke_callbacks: calls each callback with the future", fut.short, "callback(self)",
            "callbacks are no longer invoked", e.loc(fut, fut.node))
    for n in cbs:
        hs = [h for h in _handlers_of(fg, n) if _catch_all(h)]
        inloop = any(m.kind == "for_iter" and fg.dominates(m, n) for m in fg.nodes)
        R.check(bool(hs) and inloop, "R-EXC-BREADTH", "Future._invoke_callbacks: each callback runs inside a BaseException handler inside the loop",
                fut.short, norm(n.ast), "a done-callback raising (SystemExit, KeyboardInterrupt included) propagates into the thread "
                "resolving the future -- the manager thread -- and the remaining callbacks are skipped", e.loc(fut, n.ast))
        for h in hs:
            esc = fg.find_path(h, lambda x: x is fg.exit or x is fg.raise_exit, avoid=[m for m in fg.nodes if m.kind == "for_iter"], use_exc=True)
            R.check(esc is None, "R-EXC-BREADTH", "Future._invoke_callbacks: the handler continues with the next callback", fut.short,
                    "except BaseException: log", "a failing callback aborts the remaining callbacks", e.loc(fut, h.ast))
    # the override is actually used: loky's Future class is what submit instantiates
    sub = a.submit
    R.check(any(o[2] == "loky._base:Future" for o in a.future_objs), "R-EXC-BREADTH", "submit creates loky's Future (with the guarded callbacks)",
            sub.short, "Future()", "submit creates a plain concurrent.futures.Future", e.loc(sub, sub.node))
    # (4) initializer: failure => return (the pool breaks), never the task loop
    inits = [n for n in g.nodes if n.kind == "stmt" for c in calls_in(n) if isinstance(c.func, ast.Name) and c.func.id in f.params
             and any(isinstance(x, ast.Starred) for x in c.args)]
    for n in inits:
        hs = [h for h in _handlers_of(g, n) if _catch_all(h)]
        ok = bool(hs) and all(g.find_path(h, lambda x: x is getn, use_exc=False) is None for h in hs)
        R.check(ok, "R-EXC-BREADTH", "worker: an initializer failure never reaches the task loop", f.short, norm(n.ast),
                "after a failing initializer the worker would still take tasks (uninitialised worker)", e.loc(f, n.ast))
    R.floor("R-EXC-BREADTH", 11)


def r_feeder(e, R):
    a = e.anchors
    f = a.feeder
    g = e.cfg(f)
    # parameters by role
    onerr = getattr(a, "_onerror_param", None)
    a.feeder_onerror
    onerr = a._onerror_param
    # the slot semaphore parameter: released in the handler
    dumps = [n for n in g.nodes for c in calls_in(n) if e.callees_of(c) & {"loky.backend.reduction:dumps"}]
    sends = [n for n in g.nodes for c in calls_in(n) if isinstance(c.func, ast.Name) and c.func.id in f.params and
             c.args and isinstance(c.args[0], ast.Name) and any(isinstance(d.ast, ast.Assign) and isinstance(d.ast.targets[0], ast.Name)
                                                               and d.ast.targets[0].id == c.args[0].id for d in dumps)]
    R.check(bool(dumps) and bool(sends), "R-FEEDER", f"{f.short}: serialises with loky's dumps then sends the bytes", f.short, "dumps -> send_bytes",
            "the feeder no longer serialises through loky's reducers", e.loc(f, f.node))
    # reducers parameter flows into dumps
    for n in dumps:
        for c in calls_in(n):
            if e.callees_of(c) & {"loky.backend.reduction:dumps"}:
                ok = any(k.arg == "reducers" and isinstance(k.value, ast.Name) and k.value.id in f.params for k in c.keywords)
                R.check(ok, "R-FEEDER", f"{f.short}: dumps uses the queue's own reducers", f.short, norm(c),
                        "the feeder serialises without the queue's reducers", e.loc(f, c))
    # serialise-before-lock and release in finally (R-PAIR on the write lock)
    acq = [n for n in g.nodes for c in calls_in(n) if (e._acq_rel(f, c) or (None,))[0] == "acq" and _is_param_lock(e, f, c, "writelock")]
    rel = [n for n in g.nodes for c in calls_in(n) if (e._acq_rel(f, c) or (None,))[0] == "rel" and _is_param_lock(e, f, c, "writelock")]
    R.check(bool(acq) and bool(rel), "R-PAIR", f"{f.short}: takes the pipe write lock around send_bytes", f.short, "wacquire/wrelease",
            "the feeder sends without the write lock", e.loc(f, f.node))
    for an in acq:
        R.check(all(g.dominates(d, an) for d in dumps), "R-PAIR", f"{f.short}: serialisation happens before the write lock is taken", f.short,
                "dumps before wacquire", "the feeder pickles while holding the pipe write lock: a pickling error or slow pickling "
                "blocks/poisons the lock shared with other writers", e.loc(f, an.ast))
        esc = g.find_path(an, lambda n: n is g.exit or n is g.raise_exit or (n.kind == "join" and n.tag == "loop-head") or n.kind == "except",
                          avoid=rel, use_exc=True, start_labels=[None])
        R.check(esc is None, "R-PAIR", f"{f.short}: the write lock is released on every path (finally)", f.short, "wrelease in finally",
                "the feeder can raise or continue while holding the pipe write lock: every later put blocks forever", e.loc(f, an.ast),
                g.fmt_path(esc) if esc else None)
    # notempty acquire/release pairing
    nacq = [n for n in g.nodes for c in calls_in(n) if (e._acq_rel(f, c) or (None,))[0] == "acq" and _is_param_lock(e, f, c, "notempty")]
    nrel = [n for n in g.nodes for c in calls_in(n) if (e._acq_rel(f, c) or (None,))[0] == "rel" and _is_param_lock(e, f, c, "notempty")]
    for an in nacq:
        esc = g.find_path(an, lambda n: n is g.exit or n is g.raise_exit or n.kind == "except", avoid=nrel, use_exc=True, start_labels=[None])
        R.check(esc is None and bool(nrel), "R-PAIR", f"{f.short}: the buffer condition is released on every path", f.short, "nrelease in finally",
                "the feeder can leave holding the buffer condition: put() blocks forever", e.loc(f, an.ast))
    # error path
    outer = [h for h in g.nodes if h.kind == "except" and _catch_all(h)]
    if len(outer) != 1:
        R.fail("R-FEEDER", f.short, "except BaseException", "the feeder's catch-all error handler is missing or duplicated", e.loc(f, f.node))
        return
    H = outer[0]
    head = [n for n in g.nodes if n.kind == "join" and n.tag == "loop-head" and g.dominates(n, H)]
    semrel = [n for n in g.nodes if g.dominates(H, n) for c in calls_in(n) if isinstance(c.func, ast.Attribute) and c.func.attr == "release"
              and isinstance(c.func.value, ast.Name) and c.func.value.id in f.params]
    hook = [n for n in g.nodes if g.dominates(H, n) for c in calls_in(n) if isinstance(c.func, ast.Name) and c.func.id == onerr]
    R.check(bool(semrel) and bool(hook), "R-FEEDER", f"{f.short}: the error path releases the queue slot and calls the error hook", f.short,
            "queue_sem.release(); onerror(e, obj)", "the feeder error path no longer releases the slot / calls the hook: the queue "
            "loses a slot per failed task (eventually full forever) or the task's future is never failed", e.loc(f, H.ast))
    if head and semrel and hook:
        for S, nm in ((semrel, "slot release"), (hook, "error hook")):
            esc = g.find_path(H, lambda n: n is head[0], avoid=S, use_exc=False)
            R.check(esc is None, "R-FEEDER", f"{f.short}: every continuation into the loop passes the {nm}", f.short, nm,
                    f"the feeder can resume after an error without the {nm}", e.loc(f, H.ast), g.fmt_path(esc) if esc else None)
        # the slot is released for the bounded-queue semaphore shipped by _start_thread
        rets = [n for n in g.nodes if n.kind == "stmt" and isinstance(n.ast, ast.Return) and g.dominates(H, n)]
        def accepting(n, m, label):
            # the two documented reasons to give up: EPIPE while ignore_epipe, interpreter exiting
            if n.kind == "test" and label == "T":
                txt = norm(n.ast)
                if txt.endswith("is_exiting()") or "EPIPE" in txt:
                    return False
            return True
        for r in rets:
            esc = g.find_path(H, lambda n, r=r: n is r, use_exc=False, edge_ok=accepting)
            R.check(esc is None, "R-FEEDER", f"{f.short}: early return {r!r} only for EPIPE-ignored / interpreter exiting",
                    f.short, norm(r.ast), "the feeder thread gives up on an error outside the two documented cases: every later task is never sent",
                    e.loc(f, r.ast), g.fmt_path(esc) if esc else None)
        # the hook receives the object that failed
        for n in hook:
            for c in calls_in(n):
                if isinstance(c.func, ast.Name) and c.func.id == onerr:
                    ok = len(c.args) == 2 and isinstance(c.args[0], ast.Name) and c.args[0].id == H.ast.name
                    R.check(ok, "R-FEEDER", f"{f.short}: the hook gets (exception, failed object)", f.short, norm(c),
                            "the error hook is not given the exception and the object that failed", e.loc(f, c))
    # ---- polarity / totality of the feed loop (scenario obligations): what is popped is sent, the sentinel ends the thread,
    # an empty buffer is waited for
    from . import scenario as SC
    def _m(c, attrs):
        ac = attr_call(e, f, c)
        return ac is not None and ac[1] in attrs and isinstance(ac[0], ast.Name) and ac[0].id in f.params
    pops = [n for n in func_nodes(f) if isinstance(n, ast.Assign) and isinstance(n.targets[0], ast.Name) and isinstance(n.value, ast.Call) and _m(n.value, ("popleft", "pop"))]
    if len(pops) != 1:
        raise AnalysisError("feeder: the pop of the next object not recognised")
    ov = pops[0].targets[0].id
    # only the loop body after the pop is of interest: start the traversal at the pop
    popn = [n for n in g.nodes if n.kind == "stmt" and n.ast is pops[0]]
    sent_names = {d.targets[0].id for d in func_nodes(f) if isinstance(d, ast.Assign) and isinstance(d.targets[0], ast.Name) and isinstance(d.value, ast.Name)
                  and d.value.id.lstrip("_").startswith("sentinel")} | {"_sentinel"}

    def is_sentinel(val):
        def ev(x):
            if isinstance(x, ast.Compare) and len(x.ops) == 1 and isinstance(x.ops[0], (ast.Is, ast.IsNot)) and isinstance(x.left, ast.Name) and x.left.id == ov \
                    and isinstance(x.comparators[0], ast.Name) and x.comparators[0].id in sent_names:
                return val == isinstance(x.ops[0], ast.Is)
            return None
        return ev
    lockv = {d.targets[0].id for d in func_nodes(f) if isinstance(d, ast.Assign) and isinstance(d.targets[0], ast.Name) and isinstance(d.value, ast.Attribute)
             and d.value.attr == "acquire" and isinstance(d.value.value, ast.Name) and d.value.value.id == "writelock"}
    posix = [(SC.name(v), "some") for v in lockv]
    closen = lambda n: any(isinstance(c.func, ast.Name) and c.func.id == "close" for c in calls_in(n))
    retn = lambda n: n.kind == "stmt" and isinstance(n.ast, ast.Return)
    heads = [n for n in g.nodes if n.kind == "join" and n.tag == "loop-head"]
    for pn in popn:
        esc = SC.Facts(posix, [is_sentinel(False)]).find(g, pn, lambda n: n in heads or n is g.exit, avoid=sends, use_exc=False)
        R.check(esc is None and bool(sends), "R-FEEDER", f"{f.short}: an object popped from the buffer is sent before the next one is taken", f.short, "send_bytes(obj_)",
                "the feeder drops objects it popped from the buffer: the task is never delivered and its future never resolves", e.loc(f, pn.ast),
                g.fmt_path(esc) if esc else None)
        FS = SC.Facts(posix, [is_sentinel(True)])
        bad = FS.find(g, pn, lambda n: n in sends, use_exc=False, avoid=lambda n: n in heads)
        esc2 = FS.find(g, pn, lambda n: n in heads or n is g.exit, avoid=lambda n: closen(n), use_exc=False)
        esc3 = FS.find(g, pn, lambda n: n in heads, use_exc=False)
        R.check(bad is None and esc2 is None and esc3 is None, "R-FEEDER", f"{f.short}: the sentinel closes the pipe and ends the thread, and is never sent", f.short,
                "if obj is sentinel: close(); return", "the close sentinel is pickled and sent to a worker, or the feeder thread never ends (join at shutdown hangs)",
                e.loc(f, pn.ast))
    # the object handed to the error hook is the object that was popped: the variable is (re)defined only by the pop itself, so
    # that a failure while *sending* still reports the task (not its pickled bytes) to the hook
    hook_calls = [c for n in g.nodes for c in calls_in(n) if isinstance(c.func, ast.Name) and c.func.id == onerr]
    redefs = [n for n in func_nodes(f) if isinstance(n, ast.Assign) and n is not pops[0] and any(isinstance(t, ast.Name) and t.id == ov for t in n.targets)] + \
        [n for n in func_nodes(f) if isinstance(n, (ast.AugAssign, ast.AnnAssign)) and isinstance(n.target, ast.Name) and n.target.id == ov]
    for c in hook_calls:
        okv = len(c.args) == 2 and isinstance(c.args[1], ast.Name) and c.args[1].id == ov
        R.check(okv and not redefs, "R-FEEDER", f"{f.short}: the error hook receives the popped object itself", f.short,
                f"{norm(c)}; `{ov}` redefined: {[norm(r)[:40] for r in redefs]}" if redefs else norm(c),
                f"`{ov}` is overwritten (e.g. by its own serialisation) before the hook can be called with it: when the *send* fails the hook gets bytes instead of the "
                "task, does not recognise it and the task's future is never failed", e.loc(f, redefs[0] if redefs else c))
    # `except IndexError: pass` is the feeder's "buffer empty" signal: it may cover the pop only.  The serialisation runs the
    # user's __reduce__ / __getstate__, which may raise IndexError too: that must reach the error path (fail the task's future)
    for tr_ in [n for n in func_nodes(f) if isinstance(n, ast.Try)]:
        sw = [h for h in tr_.handlers if h.type is not None and norm(h.type).split(".")[-1] in ("IndexError", "LookupError") and not any(isinstance(b, (ast.Raise, ast.Call)) for s_ in h.body for b in ast.walk(s_))]
        if not sw:
            continue
        inside = [c for s_ in tr_.body for c in ast.walk(s_) if isinstance(c, ast.Call) and (e.callees_of(c) & {"loky.backend.reduction:dumps"} or
                  (isinstance(c.func, ast.Name) and c.func.id in f.params and c.func.id not in ("close",)))]
        R.check(not inside, "R-FEEDER", f"{f.short}: the silent `except IndexError` (empty buffer) covers the pop only, not the serialisation / send", f.short,
                "try: <pop> ... except IndexError: <no report>", "an IndexError raised while pickling a task's arguments (user __reduce__) is swallowed as 'buffer empty': the task "
                "is dropped silently and its future never resolves", e.loc(f, tr_))
    # the silent `return` on EPIPE means "the pipe to the workers is gone": it may be taken for an error of the *send* only.  The
    # serialisation runs user code (__reduce__) that can raise an OSError with errno EPIPE of its own (an object talking to a closed
    # socket): that must take the error path, not end the feeder thread.
    g0 = e.cfg(f)
    dump_nodes = [n for n in g0.nodes for c in calls_in(n) if e.callees_of(c) & {"loky.backend.reduction:dumps"}]
    class _T:      # (the CFG splits a short-circuit test into one node per operand: look at the whole test of the if statement)
        def __init__(self, x):
            self.ast = x
    for t_ in [_T(x.test) for x in func_nodes(f) if isinstance(x, ast.If) and "EPIPE" in norm(x.test)
               and any(isinstance(s_, ast.Return) for s_ in x.body)]:
        h_ = _innermost_handler(e, t_.ast, f)
        covers_dumps = h_ is not None and any(any(m.ast is h_ for m, l in d.succ if l == "exc" and m.kind == "except") for d in dump_nodes)
        # ... unless the test also requires a flag that is False while serialising and True while sending
        flagged = False
        # (the flag may be tested by an enclosing if rather than in the same test: look at every test the EPIPE test is nested in)
        encl_tests = [t_.ast]
        p_ = e.prog.parent.get(id(t_.ast))
        while p_ is not None and p_ is not f.node:
            if isinstance(p_, ast.If) and p_.test is not t_.ast and any(x is t_.ast for s_ in p_.body for x in ast.walk(s_)):
                encl_tests.append(p_.test)
            p_ = e.prog.parent.get(id(p_))
        for nm in [x for tt in encl_tests for x in ast.walk(tt) if isinstance(x, ast.Name) and x.id in f.locals]:
            defs_all = e.local_defs(f, nm.id)
            if defs_all and all(isinstance(d, ast.Constant) and isinstance(d.value, bool) for d in defs_all):
                at_dump = [d for dn in dump_nodes for d in e.reaching_defs(f, nm.id, dn)]
                if at_dump and all(isinstance(d, ast.Constant) and d.value is False for d in at_dump):
                    flagged = True
        R.check((not covers_dumps) or flagged, "R-FEEDER", f"{f.short}: the silent EPIPE return is taken for errors of the send only, not of the serialisation", f.short,
                "EPIPE return covers dumps()", "the handler that returns silently on errno == EPIPE also covers dumps(obj): a task argument whose __reduce__ raises "
                "BrokenPipeError ends the feeder thread without a trace: that future and every later one never resolve and the executor is not flagged broken",
                e.loc(f, t_.ast))
    # on this platform (write lock present) no send happens without the lock
    for pn in popn:
        bare = SC.Facts(posix, [is_sentinel(False)]).find(g, pn, lambda n: n in sends, avoid=lambda n: n in acq or n in heads, use_exc=False)
        R.check(bare is None and bool(posix), "R-PAIR", f"{f.short}: with a write lock (POSIX) every send is made under it", f.short, "wacquire(); send_bytes(obj_); wrelease()",
                "the feeder writes to the pipe without the write lock although one exists: concurrent putters interleave their messages", e.loc(f, pn.ast),
                g.fmt_path(bare) if bare else None)
    # an empty buffer is waited for (under the condition), a non-empty one is not
    waits = [n for n in g.nodes for c in calls_in(n) if _m(c, ("wait",))]
    bufp = f.params[0]
    btests = [t for t in g.nodes if t.kind == "test" and t.ast is not None and any(isinstance(x, ast.Name) and x.id == bufp for x in ast.walk(t.ast))]
    if not waits or not btests:
        raise AnalysisError("feeder: wait on the buffer condition not recognised")
    for t in btests:
        okw = SC.Facts([(SC.name(bufp), "F")]).escape(g, t, lambda n: n in waits, until_pred=lambda n: n in popn, use_exc=False) is None
        okn = SC.Facts([(SC.name(bufp), "T")]).find(g, t, lambda n: n in waits, avoid=lambda n: n in popn, use_exc=False) is None
        R.check(okw and okn, "R-FEEDER", f"{f.short}: waits on the buffer condition exactly when the buffer is empty", f.short, "if not buffer: nwait()",
                "the feeder spins on an empty buffer (100% CPU) or sleeps with objects queued (a task is delayed until the next put)", e.loc(f, t.ast))
    # the thread is started by _start_thread with the feeder as its target
    st = e.prog.cls("loky.backend.queues:Queue").methods.get("_start_thread")
    if st is None:
        raise AnalysisError("Queue._start_thread not found")
    sg = e.cfg(st)
    startn = lambda n: any(isinstance(c.func, ast.Attribute) and c.func.attr == "start" for c in calls_in(n))
    tgt = [c for c in func_nodes(st) if isinstance(c, ast.Call) and any(k.arg == "target" and f.qualname in {v[1] for v in e.pt.ev(st, k.value) if v[0] == "func"} for k in c.keywords)]
    R.check(bool(tgt) and sg.escape_path(sg.entry, startn, use_exc=False) is None and any(startn(n) for n in sg.nodes), "R-FEEDER",
            "Queue._start_thread: creates the thread with loky's feeder as target and starts it on every path", st.short, "Thread(target=Queue._feed, ...).start()",
            "the feeder thread is never started (nothing is ever sent) or runs the stdlib feeder without loky's reducers", e.loc(st, st.node))
    # close() of the stdlib Queue ends the feeder by calling the finaliser that _start_thread stored in `self._close`
    # (it appends the sentinel to the buffer and notifies): without it the feeder thread of every closed queue stays forever
    def close_fin(n):
        if not (n.kind == "stmt" and isinstance(n.ast, ast.Assign) and isinstance(n.ast.targets[0], ast.Attribute) and n.ast.targets[0].attr == "_close"
                and isinstance(n.ast.targets[0].value, ast.Name) and n.ast.targets[0].value.id == st.params[0] and isinstance(n.ast.value, ast.Call)):
            return False
        c = n.ast.value
        a2 = c.args[2] if len(c.args) >= 3 else next((k.value for k in c.keywords if k.arg == "args"), None)
        return norm(c.func).endswith("Finalize") and len(c.args) >= 2 and norm(c.args[1]).endswith("_finalize_close") and isinstance(a2, (ast.List, ast.Tuple)) \
            and [norm(x) for x in a2.elts] == [f"{st.params[0]}._buffer", f"{st.params[0]}._notempty"]
    R.check(sg.escape_path(sg.entry, close_fin, use_exc=False) is None and any(close_fin(n) for n in sg.nodes), "R-FEEDER",
            "Queue._start_thread: stores the closing finaliser (sentinel to the buffer) that the inherited close() calls", st.short,
            "self._close = Finalize(self, Queue._finalize_close, [self._buffer, self._notempty])",
            "close() of the queue no longer tells the feeder thread to quit: one feeder thread (and the pipe it holds) leaks per executor", e.loc(st, st.node))
    R.trust("stdlib: multiprocessing.queues.Queue.close() calls the finaliser stored in self._close; Queue._finalize_close appends the sentinel and notifies")
    # ... "the inherited close()": if loky's Queue (or the executor's subclass of it) overrides close(), the override itself must call the stored
    # finaliser (or the inherited close) on every path on which a finaliser is stored -- an early return, e.g. because some other code already
    # closed the reader end, leaves the feeder thread waiting forever
    qcls = st.cls
    for cq_, cl_ in e.prog.classes.items():
        if not (qcls is not None and (cq_ == qcls.qualname or e.pt.is_subclass(cq_, qcls.qualname))):
            continue
        cm = cl_.methods.get("close")
        if cm is None:
            continue
        cg_ = e.cfg(cm)
        selfn_ = cm.params[0]
        aliases = {n.targets[0].id for n in func_nodes(cm) if isinstance(n, ast.Assign) and isinstance(n.targets[0], ast.Name) and isinstance(n.value, ast.Attribute)
                   and n.value.attr == "_close" and isinstance(n.value.value, ast.Name) and n.value.value.id == selfn_}

        def fin_call(n, aliases=aliases, selfn_=selfn_):
            for c in calls_in(n):
                fn_ = c.func
                if isinstance(fn_, ast.Name) and fn_.id in aliases:
                    return True
                if isinstance(fn_, ast.Attribute) and fn_.attr == "_close" and isinstance(fn_.value, ast.Name) and fn_.value.id == selfn_:
                    return True
                if isinstance(fn_, ast.Attribute) and fn_.attr == "close" and isinstance(fn_.value, ast.Call) and isinstance(fn_.value.func, ast.Name) and fn_.value.func.id == "super":
                    return True
            return False

        def present(n, m, label, aliases=aliases):
            # the finaliser is there: a test of it (`if close:`) takes its true branch
            if n.kind == "test" and label in ("T", "F"):
                x = n.ast
                neg = False
                while isinstance(x, ast.UnaryOp) and isinstance(x.op, ast.Not):
                    x, neg = x.operand, not neg
                nt_ = none_test(x)
                subj = nt_[0] if nt_ else None
                if subj is not None and ((isinstance(subj, ast.Name) and subj.id in aliases) or (isinstance(subj, ast.Attribute) and subj.attr == "_close")):
                    want = nt_[1] if not neg else ("F" if nt_[1] == "T" else "T")
                    return label == want
            return True
        esc_ = cg_.escape_path(cg_.entry, fin_call, use_exc=False, edge_ok=present)
        R.check(any(fin_call(n) for n in cg_.nodes) and esc_ is None, "R-FEEDER", f"{cm.short}: an overriding close() runs the closing finaliser on every path", cm.short,
                "close() -> self._close()", "the close() override can return without running the finaliser that sends the sentinel to the feeder thread (an early return "
                "before it): the feeder thread, the pipe and the three semaphores of the queue leak for every lifecycle that takes that path", e.loc(cm, cm.node),
                cg_.fmt_path(esc_) if esc_ else None)
    R.floor("R-FEEDER", 11)
    R.floor("R-PAIR", 4)


def _is_param_lock(e, f, c, param):
    """Is the lock operated by call c the one passed as parameter `param`?"""
    ar = e._acq_rel(f, c)
    if not ar:
        return False
    pv = {v for v in e.pt.get(("L", f.qualname, param)) if v[0] == "obj"}
    return bool(ar[1] & pv)


def r_result_lock(e, R):
    """Results from several workers share one pipe: SimpleQueue.put serialises
    before taking the write lock and sends under it."""
    put = e.prog.func("loky.backend.queues:SimpleQueue.put")
    g = e.cfg(put)
    dumps = [n for n in g.nodes for c in calls_in(n) if e.callees_of(c) & {"loky.backend.reduction:dumps"}]
    sends = [n for n in g.nodes for c in calls_in(n) if isinstance(c.func, ast.Attribute) and c.func.attr == "send_bytes"]
    def wl(x):
        # the write-lock field, read directly or through a local alias assigned once from it
        return norm(inline_locals(e, put, x)).endswith("_wlock")
    withs = [n for n in g.nodes if n.kind == "with_enter" and wl(n.ast.context_expr)]
    R.check(bool(dumps) and bool(sends) and all(any(g.dominates(d, s_) for d in dumps) for s_ in sends) and
            all(all(g.dominates(d, w_) for d in dumps) for w_ in withs), "R-PAIR", "SimpleQueue.put: serialises before taking the write lock", put.short,
            "dumps before `with self._wlock`", "results are pickled while holding the result pipe's write lock (a failing/slow pickling blocks every worker)",
            e.loc(put, put.node))
    none_t = [t for t in g.nodes if t.kind == "test" and none_test(t.ast) and wl(none_test(t.ast)[0])]
    locked = [s_ for s_ in sends if any(g.dominates(w_, s_) for w_ in withs)]
    unlocked = [s_ for s_ in sends if s_ not in locked]
    ok = bool(locked) and all(any(g.on_branch(u, t, "F" if none_test(t.ast)[1] == "T" else "T") for t in none_t) for u in unlocked)
    R.check(ok, "R-PAIR", "SimpleQueue.put: sends under the write lock (unlocked only when there is no lock: win32 message pipes)", put.short,
            "with self._wlock: self._writer.send_bytes(obj)", "results are written to the shared pipe without the write lock: messages of two workers "
            "interleave and the manager fails to un-serialise (pool flagged broken by a healthy task)", e.loc(put, put.node))


def r_feeder_hook(e, R):
    """The executor's feeder-error hook fails only its own future."""
    a = e.anchors
    broken = broken_pred(e)
    kill = kill_pred(e)
    res = resolve_pred(e)
    wake = wake_pred(e)
    for q in sorted(a.feeder_onerror):
        f = e.prog.funcs[q]
        g = e.cfg(f)
        R.check(not effect_nodes(e, f, broken) and not effect_nodes(e, f, kill), "R-FEEDER-HOOK", f"{f.short}: no broken-flag / kill effect",
                f.short, "no FLAG(broken)/KILL", "a task that cannot be pickled flags the whole pool broken or kills workers", e.loc(f, f.node))
        objp = f.params[2] if len(f.params) > 2 else None
        def own_id(x):
            # `obj.work_id`, directly or read once into a local
            if isinstance(x, ast.Name) and len(e.local_defs(f, x.id)) == 1:
                x = e.local_defs(f, x.id)[0]
            return isinstance(x, ast.Attribute) and x.attr == "work_id" and isinstance(x.value, ast.Name) and x.value.id == objp
        pops = [n for n in g.nodes for c in calls_in(n) if e.receiver_objs(f, c, ("pop",)) & a.pending and c.args and own_id(c.args[0])]
        R.check(bool(pops), "R-FEEDER-HOOK", f"{f.short}: removes the failed task's own entry (keyed by its work id)", f.short,
                "pending.pop(obj.work_id, None)", "the hook does not remove the pending entry of the task that failed", e.loc(f, f.node))
        for n in pops:
            for c in calls_in(n):
                if e.receiver_objs(f, c, ("pop",)) & a.pending:
                    R.check(len(c.args) == 2, "R-FEEDER-HOOK", f"{f.short}: pop with a default (the manager may have failed it already)", f.short,
                            norm(c), "pop without default raises KeyError in the feeder thread when the pool broke meanwhile", e.loc(f, c))
        rm = [n for n in g.nodes for c in calls_in(n) if e.receiver_objs(f, c, ("remove",)) & a.running]
        R.check(bool(rm), "R-FEEDER-HOOK", f"{f.short}: removes the id from the running list", f.short, "running.remove(obj.work_id)",
                "the failed task stays in the running list: the respawn accounting (running > workers) is off forever", e.loc(f, f.node))
        rs = [(n, c) for n in g.nodes for c in calls_in(n) if res(f, c)]
        R.check(bool(rs), "R-FEEDER-HOOK", f"{f.short}: fails the task's future", f.short, "set_exception", "the future of an unsendable task is never failed",
                e.loc(f, f.node))
        for n, c in rs:
            arg = c.args[0] if c.args else None
            classes = set()
            if isinstance(arg, ast.Name):
                for d in e.local_defs(f, arg.id):
                    if isinstance(d, ast.Call):
                        classes |= {norm(d.func)}
            ok = classes and classes <= {"PicklingError", "RuntimeError"} and "PicklingError" in classes
            R.check(bool(ok), "R-FEEDER-HOOK", f"{f.short}: the future fails with PicklingError / RuntimeError", f.short, norm(c),
                    f"an unsendable task fails with {sorted(classes)} instead of PicklingError (RuntimeError for too-large tasks)", e.loc(f, c))
            # __cause__ carries the traceback
            cause = [x for x in func_nodes(f) if isinstance(x, ast.Attribute) and isinstance(x.ctx, ast.Store) and x.attr == "__cause__"
                     and isinstance(x.value, ast.Name) and isinstance(arg, ast.Name) and x.value.id == arg.id]
            R.check(bool(cause), "R-FEEDER-HOOK", f"{f.short}: the original error is attached as __cause__", f.short, "raised_error.__cause__ = ...",
                    "the pickling error loses its cause", e.loc(f, c))
        wn = effect_nodes(e, f, wake)
        R.check(bool(wn), "R-FEEDER-HOOK", f"{f.short}: wakes the manager", f.short, "thread_wakeup.wakeup()", "no wake-up after freeing a slot",
                e.loc(f, f.node))
        # everything the hook removes unconditionally must already be there when the item reaches the feeder:
        # the dispatch registers the id as running BEFORE the put on the call queue
        if rm:
            for q2 in a.manager_funcs:
                df = e.prog.funcs[q2]
                dg = e.cfg(df)
                puts = [n for n in dg.nodes for c in calls_in(n) if e.receiver_objs(df, c, ("put", "put_nowait")) & a.callq and c.args
                        and not (isinstance(c.args[0], ast.Constant) and c.args[0].value is None)]
                if not puts:
                    continue
                ins = [n for n in dg.nodes if n.kind == "stmt" and n.ast is not None and (
                    (isinstance(n.ast, ast.AugAssign) and e.objs(df, n.ast.target) & a.running) or
                    any(e.receiver_objs(df, c, ("append", "extend", "insert")) & a.running for c in calls_in(n)))]
                R.check(bool(ins) and all(any(dg.dominates(i, p) and i is not p for i in ins) for p in puts), "R-FEEDER-HOOK",
                        f"{df.short}: the id is registered as running before the item is handed to the call queue", df.short,
                        "running_work_items += [work_id] before call_queue.put(...)",
                        "the work id is added to the running list after the put: if the feeder thread fails to pickle the item first, the error "
                        "hook's unconditional remove() raises in the feeder thread before the future is failed and before the manager is woken "
                        "(the future never resolves)", e.loc(df, puts[0].ast))
        # other objects are delegated to the base hook
        sup = [c for c in func_nodes(f) if isinstance(c, ast.Call) and isinstance(c.func, ast.Attribute) and isinstance(c.func.value, ast.Call)
               and isinstance(c.func.value.func, ast.Name) and c.func.value.func.id == "super"]
        R.check(bool(sup), "R-FEEDER-HOOK", f"{f.short}: non-task objects are delegated to the base hook", f.short, "super()._on_queue_feeder_error",
                "errors on sentinels are swallowed", e.loc(f, f.node))
    R.floor("R-FEEDER-HOOK", 8)


def r_cause(e, R):
    """The remote traceback travels as __cause__."""
    cls = e.prog.cls(f"{PE}:_ExceptionWithTraceback") if f"{PE}:_ExceptionWithTraceback" in e.prog.classes else None
    # locate by role: the class whose instances are put as `exception=` in the worker
    a = e.anchors
    wm = a.worker_main
    wrappers = set()
    for n in func_nodes(wm):
        if isinstance(n, ast.Assign) and isinstance(n.value, ast.Call):
            for v in e.pt.ev(wm, n.value.func):
                if v[0] == "class" and "__reduce__" in e.prog.classes[v[1]].methods:
                    wrappers.add(v[1])
    if len(wrappers) != 1:
        raise AnalysisError(f"exception wrapper class not identified: {sorted(wrappers)}")
    wq = wrappers.pop()
    red = e.prog.classes[wq].methods["__reduce__"]
    rets = [n for n in func_nodes(red) if isinstance(n, ast.Return)]
    ok = False
    rb = None
    for r in rets:
        v = r.value
        if isinstance(v, ast.Tuple) and len(v.elts) == 2 and isinstance(v.elts[1], ast.Tuple):
            fs = [x for x in e.pt.ev(red, v.elts[0]) if x[0] == "func"]
            if fs:
                rb = e.prog.funcs[fs[0][1]]
                ok = len(v.elts[1].elts) == len(rb.params)
                args = v.elts[1].elts
    R.check(ok, "R-CAUSE", f"{red.short}: reduces to (rebuild, (exc, tb)) matching the rebuild function's arity", red.short, norm(rets[0].value) if rets else "",
            "the exception wrapper's __reduce__ does not match its rebuild function", e.loc(red, red.node))
    if rb is not None:
        init = e.prog.classes[wq].methods.get("__init__")
        # attribute -> parameter role agreement: first is the exception, second the formatted traceback
        stores = [n for n in func_nodes(rb) if isinstance(n, ast.Attribute) and isinstance(n.ctx, ast.Store) and n.attr == "__cause__"]
        okc = False
        for s in stores:
            st = stmt_of(e, rb, s)
            if isinstance(s.value, ast.Name) and s.value.id == rb.params[0] and isinstance(st.value, ast.Call) \
                    and st.value.args and isinstance(st.value.args[0], ast.Name) and st.value.args[0].id == rb.params[1]:
                cls_ = {x[1] for x in e.pt.ev(rb, st.value.func) if x[0] == "class"}
                okc = bool(cls_)
        R.check(okc, "R-CAUSE", f"{rb.short}: sets exc.__cause__ = RemoteTraceback(tb)", rb.short, "exc.__cause__ = _RemoteTraceback(tb)",
                "the rebuilt exception no longer carries the remote traceback as __cause__", e.loc(rb, rb.node))
        rr = [n for n in func_nodes(rb) if isinstance(n, ast.Return)]
        R.check(len(rr) == 1 and isinstance(rr[0].value, ast.Name) and rr[0].value.id == rb.params[0], "R-CAUSE",
                f"{rb.short}: returns the task's own exception object", rb.short, "return exc",
                "the rebuilt exception is not the task's own exception (type/args lost)", e.loc(rb, rb.node))
        # __reduce__ ships (self.exc, self.tb) in that order and __init__ stores the exception unchanged
        names = [x.attr if isinstance(x, ast.Attribute) else None for x in args]
        okn = False
        if init is not None and len(names) == 2 and all(names):
            st_exc = [n for n in func_nodes(init) if isinstance(n, ast.Assign) and isinstance(n.targets[0], ast.Attribute)
                      and n.targets[0].attr == names[0] and isinstance(n.value, ast.Name) and n.value.id == init.params[1]]
            okn = bool(st_exc)
        R.check(okn, "R-CAUSE", f"{red.short}: first shipped field is the exception passed to the wrapper", red.short, "self.exc",
                "the wrapper does not ship the original exception object first", e.loc(red, red.node))
    # the manager's own diagnoses: where it holds the worker's traceback / the unpickling error, the broken-pool exception it
    # builds carries it as __cause__ (that is the only place the user can learn *why* the pool broke)
    wf = e.prog.funcs[next(iter({f.qualname for f, _ in a.wait_calls}))]
    wg = e.cfg(wf)
    bpp = f"{PE}:BrokenProcessPool"
    for n in wg.nodes:
        if not (n.kind == "stmt" and isinstance(n.ast, ast.Assign) and isinstance(n.ast.targets[0], ast.Name) and isinstance(n.ast.value, ast.Call)):
            continue
        cl = {v[1] for v in e.pt.ev(wf, n.ast.value.func) if v[0] == "class"}
        if not any(c == bpp or e.pt.is_subclass(c, bpp) for c in cl):
            continue
        var = n.ast.targets[0].id
        # what evidence is in scope?  an enclosing `except ... as e`, or an enclosing isinstance(x, <traceback class>) branch
        srcs = set()
        p_ = e.prog.parent.get(id(n.ast))
        ch = n.ast
        while p_ is not None and p_ is not wf.node:
            if isinstance(p_, ast.ExceptHandler) and p_.name:
                srcs.add(p_.name)
            if isinstance(p_, ast.If) and any(ch is b for b in p_.body) and isinstance(p_.test, ast.Call) and isinstance(p_.test.func, ast.Name) \
                    and p_.test.func.id == "isinstance" and isinstance(p_.test.args[0], ast.Name):
                srcs.add(p_.test.args[0].id)
            ch = p_
            p_ = e.prog.parent.get(id(p_))
        if not srcs:
            continue
        sets = [m for m in wg.nodes if m.kind == "stmt" and isinstance(m.ast, ast.Assign) and isinstance(m.ast.targets[0], ast.Attribute)
                and m.ast.targets[0].attr == "__cause__" and isinstance(m.ast.targets[0].value, ast.Name) and m.ast.targets[0].value.id == var
                and (({x.id for x in ast.walk(m.ast.value) if isinstance(x, ast.Name)} |
                      {x.id for x in ast.walk(inline_locals(e, wf, m.ast.value)) if isinstance(x, ast.Name)}) & srcs)]
        esc = wg.escape_path(n, lambda m: m in sets, use_exc=False)
        R.check(bool(sets) and esc is None, "R-CAUSE", f"{wf.short}: the diagnosis built from `{'/'.join(sorted(srcs))}` carries it as __cause__", wf.short,
                f"{var}.__cause__ = ... {sorted(srcs)}", "the broken-pool exception is raised without the worker's traceback / the un-pickling error that "
                "explains it", e.loc(wf, n.ast))
    R.floor("R-CAUSE", 6)


# ---------------------------------------------------------------------------
# R-USER-FMT: formatting a user object is running user code
# ---------------------------------------------------------------------------

def _ancestors(e, node, f):
    out = []
    p_ = e.prog.parent.get(id(node))
    while p_ is not None and p_ is not f.node:
        out.append(p_)
        p_ = e.prog.parent.get(id(p_))
    return out


def _innermost_handler(e, node, f):
    for p_ in _ancestors(e, node, f):
        if isinstance(p_, ast.ExceptHandler):
            return p_
    return None


def _inside_node(e, node, anc):
    if anc is None:
        return False
    p_ = node
    while p_ is not None:
        if p_ is anc:
            return True
        p_ = e.prog.parent.get(id(p_))
    return False


def r_user_fmt(e, R):
    """An f-string field, str(), repr(), format() or a %-format applied to an object that comes from the user -- the task
    (function, arguments: anything hanging off a call item / work item), the exception a task raised, its result -- calls
    the user's __repr__ / __str__ / __format__.  On the feeder thread, in the worker loop and on the manager thread this is
    user code like any other: it may raise, and an exception there kills the thread / the worker (the pool breaks or hangs
    because of one faulty task).  Such formatting must sit in the body of a try with a broad handler, or not happen at all.
    Integer bookkeeping fields of loky's own items (work ids) are exempt."""
    a = e.anchors
    # loky's own integer bookkeeping fields of the items: the attributes used as keys of the pending table (work ids)
    SAFE_ATTRS = set()
    for q_, f_ in e.prog.funcs.items():
        if q_ not in a.manager_funcs and q_ not in a.feeder_onerror:
            continue
        for n in func_nodes(f_):
            key = None
            if isinstance(n, ast.Call) and e.receiver_objs(f_, n, ("pop", "get")) & a.pending and n.args:
                key = n.args[0]
            elif isinstance(n, ast.Subscript) and e.objs(f_, n.value) & a.pending:
                key = n.slice
            if isinstance(key, ast.Attribute):
                SAFE_ATTRS.add(key.attr)
    if not SAFE_ATTRS:
        raise AnalysisError("R-USER-FMT: the id field of loky's items (key of the pending table) is not recognised")

    def tainted_names(f):
        """local names of f that hold user objects, by role"""
        out = set()
        if f.qualname == a.worker_main.qualname:
            for n in func_nodes(f):
                if isinstance(n, ast.Assign) and isinstance(n.targets[0], ast.Name) and isinstance(n.value, ast.Call):
                    if e.receiver_objs(f, n.value, ("get",)) & a.callq:
                        out.add(n.targets[0].id)           # the call item
            item = set(out)
            for n in func_nodes(f):
                if isinstance(n, ast.Assign) and isinstance(n.targets[0], ast.Name) and isinstance(n.value, ast.Call) and isinstance(n.value.func, ast.Name) \
                        and n.value.func.id in item:
                    out.add(n.targets[0].id)               # the result of the task
                if isinstance(n, ast.Try) and any(isinstance(c, ast.Call) and isinstance(c.func, ast.Name) and c.func.id in item for s_ in n.body for c in ast.walk(s_)):
                    out |= {h.name for h in n.handlers if h.name}   # the exception the task raised
        if f.qualname in a.feeder_onerror and f.qualname.startswith(PE + ":"):
            out |= set(f.params[1:3])                      # (exception, failed object)
        if f.qualname == a.feeder.qualname:
            for n in func_nodes(f):
                ac_ = attr_call(e, f, n.value) if isinstance(n, ast.Assign) and isinstance(n.value, ast.Call) else None
                if ac_ is not None and isinstance(n.targets[0], ast.Name) and ac_[1] in ("popleft", "pop") and isinstance(ac_[0], ast.Name) and ac_[0].id in f.params:
                    out.add(n.targets[0].id)
            out |= {h.name for n in func_nodes(f) if isinstance(n, ast.Try) for h in n.handlers if h.name}
        if f.qualname in a.manager_funcs:
            for n in func_nodes(f):
                if isinstance(n, ast.Assign) and isinstance(n.value, ast.Call) and e.receiver_objs(f, n.value, ("pop", "popitem", "get")) & a.pending:
                    for t in ast.walk(n.targets[0]):
                        if isinstance(t, ast.Name) and t.id != "_":
                            out.add(t.id)
                if isinstance(n, ast.Assign) and isinstance(n.value, ast.Subscript) and e.objs(f, n.value.value) & a.pending and isinstance(n.targets[0], ast.Name):
                    out.add(n.targets[0].id)
                # what the manager received from a worker (result items carry the task's result / exception)
                if isinstance(n, ast.Assign) and isinstance(n.value, ast.Call) and len(n.targets) == 1 and e.callees_of(n.value) & wait_quals:
                    out |= received_names(n.targets[0])
            if f.qualname in result_handlers:
                out.add(f.params[1])
        return out

    wait_quals = {f_.qualname for f_, _ in a.wait_calls}
    # positions of the wait function's returned tuple that hold what was received from the pipe
    recv_pos = set()
    for f_, _ in a.wait_calls:
        for r_ in [n for n in func_nodes(f_) if isinstance(n, ast.Return) and n.value is not None]:
            elts = r_.value.elts if isinstance(r_.value, ast.Tuple) else [r_.value]
            for i_, x in enumerate(elts):
                srcs = e.local_defs(f_, x.id) if isinstance(x, ast.Name) else [x]
                if any(isinstance(c, ast.Call) and isinstance(c.func, ast.Attribute) and c.func.attr == "recv" for s_ in srcs for c in ast.walk(s_)):
                    recv_pos.add(i_)

    def received_names(target):
        if isinstance(target, ast.Tuple):
            return {el.id for i_, el in enumerate(target.elts) if i_ in recv_pos and isinstance(el, ast.Name)}
        return {target.id} if isinstance(target, ast.Name) and 0 in recv_pos else set()

    # functions of the manager that are handed the received item as their first argument
    result_handlers = set()
    for q_ in a.manager_funcs:
        f_ = e.prog.funcs.get(q_)
        if f_ is None:
            continue
        recv = set()
        for n in func_nodes(f_):
            if isinstance(n, ast.Assign) and isinstance(n.value, ast.Call) and e.callees_of(n.value) & wait_quals:
                recv |= received_names(n.targets[0])
        for c in [n for n in func_nodes(f_) if isinstance(n, ast.Call)]:
            if c.args and isinstance(c.args[0], ast.Name) and c.args[0].id in recv:
                for cq in e.callees_of(c):
                    if cq in a.manager_funcs and len(e.prog.funcs[cq].params) >= 2:
                        result_handlers.add(cq)

    def mentions(x, names):
        """the formatted expression evaluates to a tainted object or to something hanging off it (not a safe scalar field)"""
        if isinstance(x, ast.Name):
            return x.id in names
        if isinstance(x, ast.Attribute):
            if x.attr in SAFE_ATTRS or x.attr.startswith("__"):
                return False
            return mentions(x.value, names)
        if isinstance(x, ast.Call) and isinstance(x.func, ast.Name) and x.func.id in ("type", "len", "id", "int", "bool", "isinstance"):
            return False
        if isinstance(x, ast.Subscript):
            return mentions(x.value, names)
        return False

    def protected(f, node):
        child = node
        p_ = e.prog.parent.get(id(node))
        while p_ is not None and p_ is not f.node:
            if isinstance(p_, ast.Try) and any(child is s_ for s_ in p_.body) and any(h.type is None or norm(h.type) in ("Exception", "BaseException") for h in p_.handlers):
                return True
            child = p_
            p_ = e.prog.parent.get(id(p_))
        return False
    n_funcs = n_sinks = n_truth = 0
    funcs = [a.worker_main, a.feeder] + [e.prog.funcs[q] for q in a.feeder_onerror if q in e.prog.funcs] + [e.prog.funcs[q] for q in sorted(a.manager_funcs)]
    seen = set()
    for f in funcs:
        if f.qualname in seen or f.module.name == "__user__":
            continue
        seen.add(f.qualname)
        names = tainted_names(f)
        if not names:
            continue
        n_funcs += 1
        for n in func_nodes(f):
            sink = None
            if isinstance(n, ast.FormattedValue) and mentions(n.value, names):
                sink = n.value
            elif isinstance(n, ast.Call) and isinstance(n.func, ast.Name) and n.func.id in ("str", "repr", "format", "ascii") and n.args and mentions(n.args[0], names):
                sink = n.args[0]
            elif isinstance(n, ast.BinOp) and isinstance(n.op, ast.Mod) and isinstance(n.left, ast.Constant) and isinstance(n.left.value, str) \
                    and any(mentions(x, names) for x in ([n.right] if not isinstance(n.right, ast.Tuple) else n.right.elts)):
                sink = n.right
            if sink is None:
                continue
            # a message written on a path that gives up anyway (interpreter exiting: the thread returns right after) loses nothing
            # if the formatting raises
            g_ = e.cfg(f)
            st_ = stmt_of(e, f, n)
            giving_up = any(t.kind == "test" and any(norm(c.func).endswith("is_exiting") for c in calls_in(t)) and any(g_.on_branch(cn, t, "T") for cn in g_.nodes_of(st_))
                            for t in g_.nodes)
            if giving_up:
                R.ok("R-USER-FMT", f"{f.short}: `{norm(n)[:40]}` is on the interpreter-exiting path (the thread ends there either way)", e.loc(f, n))
                continue
            n_sinks += 1
            R.check(protected(f, n), "R-USER-FMT", f"{f.short}: formatting of the user object `{norm(sink)[:30]}` is inside a broad try", f.short, norm(n)[:60],
                    f"`{norm(sink)[:40]}` is a user object (a task, its arguments, its exception or its result): formatting it runs the user's __repr__/__str__ outside "
                    "any handler on a thread / in a loop that is not the user's: if it raises, the feeder thread, the worker or the manager thread dies because of one "
                    "faulty task (futures hang, or a healthy pool is flagged broken)", e.loc(f, n))
        # the truth value / equality of a user object is user code too (__bool__, __len__, __eq__): D15
        g_ = e.cfg(f)
        for t_ in [x for x in g_.nodes if x.kind == "test"]:
            x = t_.ast
            while isinstance(x, ast.UnaryOp) and isinstance(x.op, ast.Not):
                x = x.operand
            sink = None
            if isinstance(x, (ast.Name, ast.Attribute, ast.Subscript)) and mentions(x, names):
                sink = ("truth value", x)
            elif isinstance(x, ast.Compare) and any(isinstance(o, (ast.Eq, ast.NotEq, ast.In, ast.NotIn, ast.Lt, ast.Gt, ast.LtE, ast.GtE)) for o in x.ops) \
                    and any(mentions(y, names) and not (isinstance(y, ast.Name) and False) for y in [x.left] + list(x.comparators)):
                sink = ("comparison", x)
            if sink is None:
                continue
            n_truth += 1
            R.check(protected(f, t_.ast), "R-USER-FMT", f"{f.short}: the {sink[0]} of the user object `{norm(sink[1])[:30]}` is not taken on an internal thread", f.short,
                    f"{sink[0]} of {norm(sink[1])[:50]}",
                    f"`{norm(t_.ast)[:50]}` takes the {sink[0]} of a user object (a task's result / exception / arguments): __bool__ / __len__ / __eq__ of the user's class "
                    "decide loky's control flow (a falsy exception is delivered as a result) and, if they raise, kill the thread", e.loc(f, t_.ast))
    R.info["user_fmt"] = {"functions_with_user_values": n_funcs, "formatting_sites": n_sinks, "truth_sites": n_truth}
    if n_funcs < 3:
        raise AnalysisError(f"R-USER-FMT: only {n_funcs} functions with user-object locals recognised (worker loop, feeder, feeder hook, manager expected)")
    if n_sinks == 0:
        R.ok("R-USER-FMT", f"no formatting of a user object in the {n_funcs} functions that hold one (worker loop, feeder, feeder hook, manager)", None)


# ---------------------------------------------------------------------------
# R-LIVE-EXC
# ---------------------------------------------------------------------------
def r_live_exc(e, R):
    """An exception caught on one of loky's internal threads (the feeder thread, the manager thread) carries a traceback whose frames
    reference that thread's locals: the call queue with its pipe and three named semaphores, the executor's tables.  Handing the *live*
    exception object to the user -- as the exception of a future, or as __cause__ / __context__ of it -- lets whoever keeps the future pin
    those resources after the executor was shut down and released (they are only closed by garbage collection).  loky's idiom is a string
    copy (traceback.format_exception -> _RemoteTraceback).  Checked: in the feeder's error hook and in every manager function, no name
    bound to a caught exception (an `except ... as name`, or the hook's exception parameter) is stored into __cause__ / __context__, passed
    to set_exception, or used as the `from` of a raise."""
    a = e.anchors
    funcs = [e.prog.funcs[q] for q in sorted(a.feeder_onerror) if q in e.prog.funcs and q.startswith(PE + ":")] + \
            [e.prog.funcs[q] for q in sorted(a.manager_funcs) if q in e.prog.funcs]
    n_sinks = 0
    seen = set()
    for f in funcs:
        if f.qualname in seen:
            continue
        seen.add(f.qualname)
        live = {h.name for n in func_nodes(f) if isinstance(n, ast.Try) for h in n.handlers if h.name}
        if f.qualname in a.feeder_onerror and len(f.params) >= 2:
            live.add(f.params[1])
        # copies: x = e
        for n in func_nodes(f):
            if isinstance(n, ast.Assign) and isinstance(n.value, ast.Name) and n.value.id in live:
                live |= {t_.id for t_ in n.targets if isinstance(t_, ast.Name)}
        for n in func_nodes(f):
            sink = None
            if isinstance(n, ast.Assign) and any(isinstance(t_, ast.Attribute) and t_.attr in ("__cause__", "__context__") for t_ in n.targets):
                sink = n.value
            elif isinstance(n, ast.Call) and isinstance(n.func, ast.Attribute) and n.func.attr == "set_exception" and n.args:
                sink = n.args[0]
            elif isinstance(n, ast.Raise) and n.cause is not None:
                sink = n.cause
            if sink is None:
                continue
            n_sinks += 1
            bad = isinstance(sink, ast.Name) and sink.id in live
            R.check(not bad, "R-LIVE-EXC", f"{f.short}: no live exception of an internal thread is handed to a future", f.short, norm(n)[:70],
                    f"`{norm(n)[:60]}` attaches the exception object caught on loky's own thread: its traceback frames reference the call queue (pipe, three named "
                    "semaphores) and the executor's tables, so a caller that keeps the failed future keeps them open after the executor was shut down and released",
                    e.loc(f, n))
    if n_sinks < 3:
        raise AnalysisError(f"live-exception rule: only {n_sinks} cause / set_exception sites found on the feeder hook and the manager (expected >= 3)")
    R.floor("R-LIVE-EXC", 3)
