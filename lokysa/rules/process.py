"""Worker processes (C18), nesting depth (C19), resource lifecycles (C20).

R-SPAWN-FRESH, R-INIT-FIRST, R-ARGS, R-MAIN-FLAG, R-EXITCODE, R-DEPTH, R-LEAK.
"""
import ast

from ..model import func_nodes, norm, AnalysisError
from ..cfg import calls_in, _walk_noscope
from .. import guards
from .util import (none_test, effect_nodes, calls_method_of, recv_call, stmt_of, parent, cfg_nodes, inline_locals, correlated_edge_ok)
from .liveness import nulled_fields, broken_pred
from .broken import kill_pred, broken_routine
from .shutdown import join_internals_func

PE = "loky.process_executor"
FE = "loky.backend.fork_exec"
PP = "loky.backend.popen_loky_posix"
SP = "loky.backend.spawn"
PR = "loky.backend.process"


# ---------------------------------------------------------------------------
# R-SPAWN-FRESH
# ---------------------------------------------------------------------------

def _is_param_alias(e, f, x, param, depth=4):
    """x denotes the parameter `param` (possibly through `p or {}` and local copies)."""
    if depth == 0:
        return False
    if isinstance(x, ast.Name) and x.id == param:
        return True
    if isinstance(x, ast.BoolOp) and isinstance(x.op, ast.Or):
        return _is_param_alias(e, f, x.values[0], param, depth - 1)
    if isinstance(x, ast.Name):
        return any(_is_param_alias(e, f, d, param, depth - 1) for d in e.local_defs(f, x.id))
    return False


def r_spawn_fresh(e, R):
    f = e.prog.func(f"{FE}:fork_exec")
    calls = [c for c in func_nodes(f) if isinstance(c, ast.Call) and norm(c.func).endswith("_posixsubprocess.fork_exec")]
    if len(calls) != 1:
        raise AnalysisError("fork_exec: the low-level _posixsubprocess.fork_exec call not found")
    c = calls[0]
    args = c.args
    R.check(len(args) > 5 and isinstance(args[2], ast.Constant) and args[2].value is True, "R-SPAWN-FRESH", "fork_exec: close_fds is the constant True", f.short,
            norm(args[2]) if len(args) > 2 else "", "workers inherit every open descriptor of the parent", e.loc(f, c))
    keep_p = f.params[1]
    pf = args[3] if len(args) > 3 else None
    okp = False
    if isinstance(pf, ast.Name):
        defs = e.local_defs(f, pf.id)
        names = set()
        for d in defs:
            names |= {x.id for x in ast.walk(d) if isinstance(x, ast.Name)} - {"tuple", "sorted", "map", "int", "list", "set"}
        okp = (pf.id == keep_p or bool(defs)) and names <= {keep_p}
    R.check(okp, "R-SPAWN-FRESH", "fork_exec: pass_fds is derived only from the keep-list parameter", f.short, norm(pf) if pf is not None else "",
            "descriptors other than the deliberate keep-list are passed to the worker", e.loc(f, c))
    # environment: os.environ first, overlay second
    envx = args[5]
    envn = f.params[2]
    okenv = False
    disp = [n for n in func_nodes(f) if isinstance(n, ast.Dict) and any(k is None for k in n.keys)]
    for d in disp:
        stars = [norm(v) for k, v in zip(d.keys, d.values) if k is None]
        if stars == ["os.environ", envn]:
            okenv = True
    # equivalent form: fresh copy of os.environ, then .update(env)
    for n in func_nodes(f):
        if isinstance(n, ast.Assign) and isinstance(n.targets[0], ast.Name) and norm(n.value) in ("dict(os.environ)", "os.environ.copy()"):
            mv = n.targets[0].id
            if any(isinstance(x, ast.Call) and isinstance(x.func, ast.Attribute) and x.func.attr == "update" and isinstance(x.func.value, ast.Name)
                   and x.func.value.id == mv and x.args and _is_param_alias(e, f, x.args[0], envn) for x in func_nodes(f)):
                okenv = True
                envn_merged = mv
    R.check(okenv, "R-SPAWN-FRESH", "fork_exec: child environment = the parent's environment overlaid with env (overlay last, fresh mapping)", f.short,
            "; ".join(norm(d) for d in disp) or "no merge of os.environ and env found",
            "the child environment is not built as a fresh copy of os.environ overlaid with env=: the overlay does not win, the parent's "
            "environment is dropped, or a mapping shared between workers is modified", e.loc(f, c))
    # the caller's mapping is shared by every worker of a pool: it must never be mutated here
    muts = [x for x in func_nodes(f) if (isinstance(x, ast.Call) and isinstance(x.func, ast.Attribute) and x.func.attr in ("setdefault", "update", "pop", "clear", "popitem")
                                         and isinstance(x.func.value, ast.Name) and x.func.value.id == envn and not e.local_defs(f, envn)[1:2] and
                                         all(norm(d) in (f"{envn} or {{}}",) for d in e.local_defs(f, envn)))
            or (isinstance(x, ast.Subscript) and isinstance(x.ctx, (ast.Store, ast.Del)) and isinstance(x.value, ast.Name) and x.value.id == envn
                and all(norm(d) in (f"{envn} or {{}}",) for d in e.local_defs(f, envn)))]
    R.check(not muts, "R-SPAWN-FRESH", "fork_exec: the caller's env mapping is never modified (it is shared by every worker of a pool)", f.short,
            norm(muts[0])[:60] if muts else "", "fork_exec writes into the env mapping it was given: the executor hands the same mapping to every "
            "worker, so the first spawn turns the overlay into a snapshot of the parent's whole environment and later workers (respawns, resizes) "
            "get stale values", e.loc(f, muts[0]) if muts else None)
    def appends_to(x, nm):
        # `<nm>.append(...)`, directly or through a local bound once to that bound method
        if not isinstance(x, ast.Call):
            return False
        fn_ = x.func
        if isinstance(fn_, ast.Name):
            ds = e.local_defs(f, fn_.id)
            fn_ = ds[0] if len(ds) == 1 else fn_
        return isinstance(fn_, ast.Attribute) and fn_.attr == "append" and isinstance(fn_.value, ast.Name) and fn_.value.id == nm
    enc = isinstance(envx, ast.Name) and any(isinstance(n, ast.For) and norm(n.iter) == f"{envn}.items()" and any(appends_to(x, envx.id) for x in ast.walk(n))
                                             for n in func_nodes(f))
    # same thing as a comprehension over the merged mapping's items
    enc = enc or (isinstance(envx, ast.Name) and any(isinstance(d, (ast.ListComp, ast.GeneratorExp)) and len(d.generators) == 1 and not d.generators[0].ifs
                                                      and norm(d.generators[0].iter) == f"{envn}.items()"
                                                      or (isinstance(d, ast.Call) and norm(d.func) in ("list", "tuple") and d.args and isinstance(d.args[0], (ast.ListComp, ast.GeneratorExp))
                                                          and not d.args[0].generators[0].ifs and norm(d.args[0].generators[0].iter) == f"{envn}.items()")
                                                      for d in e.local_defs(f, envx.id)))
    R.check(enc, "R-SPAWN-FRESH", "fork_exec: the encoded environment passed down is built from that merged mapping", f.short, norm(envx), "the exec'ed environment is "
            "not the merged one", e.loc(f, c))
    R.check(norm(args[0]) == f.params[0] and norm(args[1]).startswith(f.params[0] + "["), "R-SPAWN-FRESH", "fork_exec: executes the given command line", f.short,
            f"{norm(args[0])}, {norm(args[1])}", "the command exec'ed is not the one given", e.loc(f, c))
    # error pipe closed on all paths
    g = e.cfg(f)
    pipe = [n for n in g.nodes if n.kind == "stmt" and isinstance(n.ast, ast.Assign) and isinstance(n.ast.value, ast.Call) and norm(n.ast.value.func) == "os.pipe"]
    for pn in pipe:
        for v in pn.ast.targets[0].elts:
            cl = [n for n in g.nodes for cc in calls_in(n) if norm(cc.func) == "os.close" and cc.args and norm(cc.args[0]) == v.id]
            esc = g.find_path(pn, lambda n: n is g.exit or n is g.raise_exit, avoid=cl, use_exc=True, start_labels=[None])
            R.check(esc is None and bool(cl), "R-SPAWN-FRESH", f"fork_exec: `{v.id}` is closed on every path", f.short, f"os.close({v.id})",
                    "the error pipe leaks one descriptor per spawned worker", e.loc(f, pn.ast))
    # launch: provenance of the keep-list
    la = e.prog.func(f"{PP}:Popen._launch")
    pc = e.prog.cls(f"{PP}:Popen")
    KEEP = keep_list_attr(e)
    adds = []
    for nm, m in pc.methods.items():
        for n in func_nodes(m):
            if isinstance(n, ast.Assign) and isinstance(n.targets[0], ast.Attribute) and n.targets[0].attr == KEEP:
                adds.append((m, "init", n.value))
            if isinstance(n, ast.AugAssign) and isinstance(n.target, ast.Attribute) and n.target.attr == KEEP:
                adds.append((m, "extend", n.value))
            if isinstance(n, ast.Call) and isinstance(n.func, ast.Attribute) and n.func.attr in ("append", "extend") and isinstance(n.func.value, ast.Attribute) \
                    and n.func.value.attr == KEEP:
                adds.append((m, n.func.attr, n.args[0]))
    pipes = [n for n in func_nodes(la) if isinstance(n, ast.Assign) and isinstance(n.value, ast.Call) and norm(n.value.func) == "os.pipe" and isinstance(n.targets[0], ast.Tuple)]
    if len(pipes) != 2:
        raise AnalysisError("_launch: expected two os.pipe() calls")
    # roles: the pipe whose read end becomes the sentinel: (parent_r, child_w); the payload pipe: (child_r, parent_w)
    sent = [n for n in func_nodes(la) if isinstance(n, ast.Assign) and isinstance(n.targets[0], ast.Attribute) and n.targets[0].attr == "sentinel"]
    parent_r = sent[0].value.id if sent and isinstance(sent[0].value, ast.Name) else None
    ends = {}
    for p in pipes:
        r_, w_ = [x.id for x in p.targets[0].elts]
        ends[r_] = "r"
        ends[w_] = "w"
    # the parent's write end: the write end of the *other* pipe (the one whose read end is not the sentinel); where the payload is
    # written through os.fdopen in this function, that call must name it (directly or through a local bound once to it)
    other = [p for p in pipes if parent_r not in [x.id for x in p.targets[0].elts]]
    parent_w = other[0].targets[0].elts[1].id if len(other) == 1 else None
    for c in [c for c in func_nodes(la) if isinstance(c, ast.Call) and norm(c.func) == "os.fdopen" and c.args and isinstance(c.args[0], ast.Name)]:
        nm_ = c.args[0].id
        defs_ = e.local_defs(la, nm_)
        if nm_ not in ends and len(defs_) == 1 and isinstance(defs_[0], ast.Name):
            nm_ = defs_[0].id
        if nm_ != parent_w:
            parent_w = None
    child = set(ends) - {parent_r, parent_w}
    R.check(parent_r in ends and parent_w in ends and len(child) == 2, "R-SPAWN-FRESH", "_launch: one pipe end each for sentinel (parent reads) and payload (parent writes)",
            la.short, f"parent ends {parent_r}, {parent_w}; child ends {sorted(child)}", "pipe ends not identified", e.loc(la, la.node))
    for m, kind, val in adds:
        names = {x.id for x in ast.walk(val) if isinstance(x, ast.Name)}
        okn = not (names & {parent_r, parent_w})
        R.check(okn, "R-SPAWN-FRESH", f"{m.short}: keep-list {kind} `{norm(val)[:50]}` contains no parent-side pipe end", m.short, norm(val)[:60],
                "a parent-side pipe end is inherited by the worker: the sentinel never becomes ready when the worker dies / the payload pipe never sees EOF",
                e.loc(m, val))
        if m is la and kind == "extend":
            allowed = child | {n.targets[0].id for n in func_nodes(la) if isinstance(n, ast.Assign) and isinstance(n.value, ast.Call)
                               and isinstance(n.value.func, ast.Attribute) and n.value.func.attr == "getfd" and isinstance(n.targets[0], ast.Name)}
            R.check(names <= allowed, "R-SPAWN-FRESH", "_launch: the keep-list gets only the child pipe ends and the tracker fd", la.short, norm(val),
                    f"unexpected descriptors {sorted(names - allowed)} are passed to every worker", e.loc(la, val))
    # child ends closed in the parent on all paths
    g = e.cfg(la)
    fin = [n for n in func_nodes(la) if isinstance(n, ast.Try) and n.finalbody]
    okc = False
    for t in fin:
        for s in t.finalbody:
            if isinstance(s, ast.For) and isinstance(s.iter, (ast.Tuple, ast.List)) and {norm(x) for x in s.iter.elts} >= child \
                    and any(isinstance(x, ast.Call) and norm(x.func) == "os.close" for x in ast.walk(s)):
                okc = all(any(x is p for x in ast.walk(t)) for p in pipes)
    R.check(okc, "R-SPAWN-FRESH", "_launch: the child ends are closed in the parent in a finally clause covering the pipes' creation", la.short, "finally: os.close(child_r/child_w)",
            "the parent keeps the child ends open: the sentinel never fires and descriptors leak per worker", e.loc(la, la.node))
    # ... and the parent's own write end of the payload pipe does not survive a failed launch: from the creation of that pipe, every
    # path that leaves _launch with an exception (fork_exec refusing the environment / EAGAIN / EMFILE, an interrupt) passes the
    # hand-over of the descriptor to a file object (which closes it) or a close of it (directly, or in a clean-up loop naming it)
    if parent_w is not None:
        def releases(n):
            if any(norm(c.func) in ("os.fdopen", "open") and c.args and isinstance(c.args[0], ast.Name) and c.args[0].id == parent_w for c in calls_in(n)):
                return True
            if any(norm(c.func) == "os.close" and c.args and isinstance(c.args[0], ast.Name) and c.args[0].id == parent_w for c in calls_in(n)):
                return True
            if n.kind == "for_iter" and isinstance(n.ast, ast.For) and isinstance(n.ast.iter, (ast.Tuple, ast.List)) and isinstance(n.ast.target, ast.Name) \
                    and any(isinstance(x, ast.Name) and x.id == parent_w for x in n.ast.iter.elts) \
                    and any(isinstance(x, ast.Call) and norm(x.func) == "os.close" and x.args and isinstance(x.args[0], ast.Name) and x.args[0].id == n.ast.target.id
                            for s_ in n.ast.body for x in ast.walk(s_)):
                return True
            return False
        made = [n for n in g.nodes if n.kind == "stmt" and n.ast in pipes and any(isinstance(x, ast.Name) and x.id == parent_w for x in ast.walk(n.ast.targets[0]))]
        for mn in made:
            esc = g.find_path(mn, lambda n: n is g.raise_exit, avoid=releases, use_exc=True, start_labels=[None])
            R.check(esc is None, "R-SPAWN-FRESH", f"_launch: the parent's write end `{parent_w}` of the payload pipe is released when the launch fails", la.short,
                    f"os.fdopen({parent_w}) / os.close({parent_w}) on every exceptional exit", f"when fork_exec (or anything before the payload is written) raises -- an "
                    f"`env=` value with an embedded NUL, EAGAIN, EMFILE -- `_launch` closes the child ends and finalises the sentinel but never closes `{parent_w}`: "
                    "one descriptor leaks in the parent per failed spawn attempt", e.loc(la, mn.ast), g.fmt_path(esc) if esc else None)
    # the payload pipe's read end is what the child is told to read
    okpipe = any(isinstance(n, ast.Call) and makes_inheritable(e, la, n) and n.args and isinstance(n.args[0], ast.Name) and n.args[0].id in child
                 and ends.get(n.args[0].id) == "r" for n in func_nodes(la))
    R.check(okpipe, "R-SPAWN-FRESH", "_launch: --pipe is the child's read end of the payload pipe", la.short, "--pipe child_r", "the child reads the wrong descriptor", e.loc(la, la.node))
    # env forwarded
    fe_calls = [c for c in func_nodes(la) if isinstance(c, ast.Call) and e.callees_of(c) & {f.qualname}]
    R.check(bool(fe_calls) and all(any(k.arg == "env" and norm(k.value).endswith(".env") for k in c.keywords) for c in fe_calls), "R-SPAWN-FRESH",
            "_launch: the process object's env overlay is handed to fork_exec", la.short, "env=process_obj.env", "env= is dropped at launch", e.loc(la, la.node))
    lp = e.prog.cls(f"{PR}:LokyProcess").methods["__init__"]
    oke = any(isinstance(n, ast.Assign) and isinstance(n.targets[0], ast.Attribute) and n.targets[0].attr == "env" and any(isinstance(x, ast.Name) and x.id == "env"
                                                                                                                       for x in ast.walk(n.value)) for n in func_nodes(lp))
    R.check(oke, "R-SPAWN-FRESH", "LokyProcess keeps its env argument", lp.short, "self.env = env", "env= is dropped by the process object", e.loc(lp, lp.node))
    R.floor("R-SPAWN-FRESH", 12)


# ---------------------------------------------------------------------------
# R-INIT-FIRST, R-ARGS
# ---------------------------------------------------------------------------

def r_init_first(e, R):
    a = e.anchors
    f = a.worker_main
    g = e.cfg(f)
    gets = [n for n in g.nodes for c in calls_in(n) if e.receiver_objs(f, c, ("get",)) & a.callq]
    inits = [n for n in g.nodes if n.kind == "stmt" for c in calls_in(n) if isinstance(c.func, ast.Name) and c.func.id in f.params
             and any(isinstance(x, ast.Starred) for x in c.args)]
    if not gets:
        raise AnalysisError("worker: task read not found")
    R.check(bool(inits), "R-INIT-FIRST", "worker: calls the configured initializer with its initargs", f.short, "initializer(*initargs)",
            "the worker never runs the initializer", e.loc(f, f.node))
    if not inits:
        return
    ip = [c.func.id for n in inits for c in calls_in(n) if isinstance(c.func, ast.Name) and c.func.id in f.params][0]

    def edge_ok(n, m, label):
        if n.kind == "test":
            nt = none_test(n.ast)
            if nt and isinstance(nt[0], ast.Name) and nt[0].id == ip and label not in (nt[1], "exc"):
                return False  # no initializer configured
        return True
    esc = g.find_path(g.entry, lambda n: n in gets, avoid=inits, use_exc=True, edge_ok=edge_ok)
    R.check(esc is None, "R-INIT-FIRST", "worker: every path to the first task read runs the initializer when one is configured", f.short, "initializer before get",
            "a worker can take tasks without having run the initializer", e.loc(f, gets[0].ast), g.fmt_path(esc) if esc else None)
    for n in inits:
        for c in calls_in(n):
            if isinstance(c.func, ast.Name) and c.func.id == ip:
                st = [x for x in c.args if isinstance(x, ast.Starred)]
                R.check(len(st) == 1 and isinstance(st[0].value, ast.Name) and st[0].value.id in f.params and not c.keywords and len(c.args) == 1, "R-INIT-FIRST",
                        "worker: the initializer gets exactly *initargs", f.short, norm(c), "the initializer is not called with its initargs", e.loc(f, c))
        hs = [m for m, l in n.succ if l == "exc" and m.kind == "except"]
        ok = bool(hs) and all(g.find_path(h, lambda x: x in gets, use_exc=False) is None for h in hs)
        R.check(ok, "R-INIT-FIRST", "worker: an initializer failure ends the worker (the pool breaks) instead of reaching the task loop", f.short, "except BaseException: return",
                "a worker whose initializer failed still serves tasks", e.loc(f, n.ast))
        esc2 = [h for h in hs if not (h.ast.type is None or norm(h.ast.type) == "BaseException")]
        R.check(not esc2, "R-INIT-FIRST", "worker: the initializer guard catches BaseException", f.short, "except BaseException", "SystemExit in an initializer is not reported", e.loc(f, n.ast))
    R.floor("R-INIT-FIRST", 4)


def keep_list_attr(e):
    """The attribute of the launcher that is handed to fork_exec as the list of descriptors to keep."""
    la = e.prog.func(f"{PP}:Popen._launch")
    for c in func_nodes(la):
        if isinstance(c, ast.Call) and e.callees_of(c) & {"loky.backend.fork_exec:fork_exec"} and len(c.args) > 1 and isinstance(c.args[1], ast.Attribute):
            return c.args[1].attr
    raise AnalysisError("_launch: the keep-list handed to fork_exec is not an attribute of the launcher")


def makes_inheritable(e, func, call):
    """Does `call` make its (first) argument inheritable?  Resolved through the callee's body (os.set_inheritable(fd, True))."""
    def body_sets(q):
        f = e.prog.funcs.get(q)
        return f is not None and any(isinstance(n, ast.Call) and norm(n.func) == "os.set_inheritable" and len(n.args) == 2 and isinstance(n.args[1], ast.Constant)
                                     and n.args[1].value is True for n in func_nodes(f))
    qs = e.callees_of(call)
    if qs:
        return any(body_sets(q) for q in qs)
    # unresolved callee (module attribute of a conditional import): fall back on every function of that name
    nm = call.func.attr if isinstance(call.func, ast.Attribute) else call.func.id if isinstance(call.func, ast.Name) else None
    return any(q.split(":")[-1] == nm and body_sets(q) for q in e.prog.funcs)


def _ctor_source(e, init, attr):
    """Names of the constructor's parameters from which `self.<attr>` is filled (directly, or position-wise through a
    helper call / tuple assignment such as `self._a, self._b = helper(a, b)`)."""
    out = set()
    params = set(init.params) | set(init.kwonly)
    selfn = init.params[0]
    for n in func_nodes(init):
        if not isinstance(n, ast.Assign):
            continue
        for t in n.targets:
            if isinstance(t, ast.Attribute) and t.attr == attr and isinstance(t.value, ast.Name) and t.value.id == selfn:
                out |= {x.id for x in ast.walk(n.value) if isinstance(x, ast.Name)} & params
            if isinstance(t, ast.Tuple):
                for j, el in enumerate(t.elts):
                    if isinstance(el, ast.Attribute) and el.attr == attr and isinstance(el.value, ast.Name) and el.value.id == selfn:
                        v = n.value
                        part = None
                        if isinstance(v, ast.Tuple) and j < len(v.elts):
                            part = v.elts[j]
                        elif isinstance(v, ast.Call) and j < len(v.args):
                            part = v.args[j]
                        out |= {x.id for x in ast.walk(part if part is not None else v) if isinstance(x, ast.Name)} & params
    return out


def r_env_overlay_kept(e, R):
    """The process object keeps the caller's env overlay entry for entry (an empty value is a value: CUDA_VISIBLE_DEVICES='')."""
    pc = e.prog.cls("loky.backend.process:LokyProcess")
    ini = pc.methods["__init__"]
    envp = [p_ for p_ in ini.params + ini.kwonly if p_ == "env"]
    if not envp:
        raise AnalysisError("LokyProcess.__init__ has no `env` parameter")
    stores = [n for n in func_nodes(ini) if isinstance(n, ast.Assign) and isinstance(n.targets[0], ast.Attribute) and isinstance(n.targets[0].value, ast.Name)
              and n.targets[0].value.id == ini.params[0] and any(isinstance(x, ast.Name) and x.id == "env" for x in ast.walk(n.value))]
    if len(stores) != 1:
        raise AnalysisError("LokyProcess.__init__: the store of the env overlay is not recognised")
    v = stores[0].value

    def whole(x):
        """x evaluates to the overlay itself or a full copy of it (None -> empty)."""
        if isinstance(x, ast.Name) and x.id == "env":
            return True
        if isinstance(x, ast.IfExp):
            return all(whole(b) or (isinstance(b, ast.Dict) and not b.keys) for b in (x.body, x.orelse))
        if isinstance(x, ast.BoolOp) and isinstance(x.op, ast.Or):
            return all(whole(b) or (isinstance(b, ast.Dict) and not b.keys) for b in x.values)
        if isinstance(x, ast.Call) and norm(x.func) in ("dict", "copy.copy", "copy.deepcopy") and len(x.args) == 1 and not x.keywords:
            return whole(x.args[0])
        if isinstance(x, ast.Call) and isinstance(x.func, ast.Attribute) and x.func.attr == "copy" and not x.args:
            return whole(x.func.value)
        if isinstance(x, ast.Dict) and x.keys and all(k is None for k in x.keys):
            return all(whole(val) for val in x.values)
        return None
    verdict = whole(v)
    if verdict is None and isinstance(v, ast.DictComp):
        gen = v.generators[0] if len(v.generators) == 1 else None
        src_ok = gen is not None and isinstance(gen.iter, ast.Call) and isinstance(gen.iter.func, ast.Attribute) and gen.iter.func.attr == "items" and whole(gen.iter.func.value)
        if src_ok:
            tnames = [t.id for t in ast.walk(gen.target) if isinstance(t, ast.Name)]
            ident = len(tnames) == 2 and isinstance(v.key, ast.Name) and v.key.id == tnames[0] and isinstance(v.value, ast.Name) and v.value.id == tnames[1]
            R.check(ident and not gen.ifs, "R-SPAWN-FRESH", "LokyProcess: the env overlay is kept entry for entry", ini.short, norm(v)[:80],
                    "entries of the env overlay are dropped or rewritten before they reach fork_exec (e.g. a truthiness filter drops `VAR=''`): the worker inherits the "
                    "parent's value of a variable the caller asked to override", e.loc(ini, v))
            return
    if verdict is None:
        raise AnalysisError(f"LokyProcess.__init__: `{norm(v)[:60]}` is not a recognised way of keeping the env overlay")
    R.check(bool(verdict), "R-SPAWN-FRESH", "LokyProcess: the env overlay is kept entry for entry", ini.short, norm(v)[:80],
            "the env overlay is not kept as given", e.loc(ini, v))


def r_args(e, R):
    """Positional / role agreement between the spawn site's args tuple and the
    worker main's parameters."""
    a = e.anchors
    sf = a.spawn_func
    wm = a.worker_main
    tuples = set()
    for f, c in a.spawn_sites:
        args = next((k.value for k in c.keywords if k.arg == "args"), None)
        t = e.expand(sf, args) if args is not None else None
        if not isinstance(t, ast.Tuple):
            R.fail("R-ARGS", sf.short, norm(c)[:60], "the worker's arguments are not a tuple display", e.loc(sf, c))
            continue
        tuples.add(id(t))
        R.check(len(t.elts) == len(wm.params), "R-ARGS", f"spawn site ships {len(t.elts)} arguments for the worker's {len(wm.params)} parameters", sf.short,
                norm(t)[:80], "arity mismatch between the spawn site and the worker main", e.loc(sf, c))
        tgt = next((k.value for k in c.keywords if k.arg == "target"), None)
        R.check(any(v == ("func", wm.qualname) for v in e.pt.ev(sf, tgt)), "R-ARGS", "spawn site targets the worker main", sf.short, norm(tgt), "wrong target", e.loc(sf, c))
    R.check(len(tuples) == 1, "R-ARGS", "every process construction shares one args tuple (respawn/resize cannot differ)", sf.short, f"{len(tuples)} tuple(s)",
            "two constructions of the worker process ship different arguments", e.loc(sf, sf.node))
    # roles by points-to: each parameter receives the object of its role
    roles = {}
    g = e.cfg(wm)
    for i, p in enumerate(wm.params):
        v = {x for x in e.pt.get(("L", wm.qualname, p)) if x[0] == "obj"}
        if v & a.callq:
            roles[p] = "callq"
        elif v & a.resq:
            roles[p] = "resq"
        elif v & a.pml:
            roles[p] = "pml"
        elif v & a.exit_locks:
            roles[p] = "exit_lock"
    uses = {}
    for n in func_nodes(wm):
        if isinstance(n, ast.Call) and isinstance(n.func, ast.Attribute) and isinstance(n.func.value, ast.Name) and n.func.value.id in wm.params:
            uses.setdefault(n.func.value.id, set()).add(n.func.attr)
        if isinstance(n, ast.withitem) and isinstance(n.context_expr, ast.Name) and n.context_expr.id in wm.params:
            uses.setdefault(n.context_expr.id, set()).add("with")
    want = {"callq": {"get"}, "resq": {"put"}, "pml": {"acquire", "release"}, "exit_lock": {"acquire"}}
    for role, meths in want.items():
        ps = [p for p, r in roles.items() if r == role]
        ok = len(ps) == 1 and meths <= uses.get(ps[0], set()) | ({"acquire"} if "with" in uses.get(ps[0], set()) else set())
        R.check(ok, "R-ARGS", f"the {role} object is bound to the worker parameter that is used as such ({ps})", wm.short, f"{role} -> {ps}, uses {uses.get(ps[0]) if ps else None}",
                f"the {role} object is shipped in the position of another parameter: the worker reads tasks from / writes results to / locks the wrong object",
                e.loc(sf, sf.node))
    # value parameters: initializer / initargs / timeout by field name, depth = global + 1
    f0, c0 = a.spawn_sites[0]
    t = e.expand(sf, next((k.value for k in c0.keywords if k.arg == "args"), None))
    if isinstance(t, ast.Tuple) and len(t.elts) == len(wm.params):
        for p, x in zip(wm.params, t.elts):
            if p in roles:
                continue
            if isinstance(x, ast.Attribute):
                src = _ctor_source(e, a.init, x.attr)
                R.check(p in src, "R-ARGS", f"worker parameter `{p}` receives the executor field that the constructor filled from its `{p}` argument", sf.short,
                        f"{p} <- field set from {sorted(src)}", f"`{norm(x)}` (set by the constructor from {sorted(src) or 'nothing recognisable'}) is shipped as `{p}`",
                        e.loc(sf, x))
            elif isinstance(x, ast.BinOp):
                glob = [n for n in func_nodes(wm) if isinstance(n, ast.Assign) and isinstance(n.value, ast.Name) and n.value.id == p and isinstance(n.targets[0], ast.Name)
                        and n.targets[0].id in wm.globals_decl]
                okd = isinstance(x.op, ast.Add) and isinstance(x.right, ast.Constant) and x.right.value == 1 and isinstance(x.left, ast.Name) \
                    and bool(glob) and glob[0].targets[0].id == x.left.id
                R.check(okd, "R-ARGS", f"worker parameter `{p}` receives the creator's depth + 1 and installs it as its own depth", sf.short, f"{p} <- {norm(x)}",
                        "the nesting depth shipped to the worker is not the creator's depth + 1 (or is not installed)", e.loc(sf, x))
            else:
                R.fail("R-ARGS", sf.short, norm(x), f"unrecognised argument for `{p}`", e.loc(sf, x))
    envk = [k for f_, c in a.spawn_sites for k in c.keywords if k.arg == "env"]
    R.check(bool(envk) and all(isinstance(k.value, ast.Attribute) and "env" in _ctor_source(e, a.init, k.value.attr) for k in envk), "R-ARGS", "the executor's env is shipped with the process",
            sf.short, "env=self._env", "env= is not applied to (re)spawned workers", e.loc(sf, sf.node))
    R.floor("R-ARGS", 8)


# ---------------------------------------------------------------------------
# R-MAIN-FLAG, R-EXITCODE
# ---------------------------------------------------------------------------

def r_main_flag(e, R):
    lp = e.prog.cls(f"{PR}:LokyProcess").methods["__init__"]
    d = lp.defaults.get("init_main_module")
    R.check(isinstance(d, ast.Constant) and d.value is False, "R-MAIN-FLAG", "LokyProcess defaults to init_main_module=False", lp.short, norm(d) if d is not None else "",
            "the default 'loky' start method re-runs the parent's __main__ in every worker", e.loc(lp, lp.node))
    R.check(any(isinstance(n, ast.Assign) and norm(n) == "self.init_main_module = init_main_module" for n in func_nodes(lp)), "R-MAIN-FLAG",
            "LokyProcess stores the flag", lp.short, "self.init_main_module = init_main_module", "flag dropped", e.loc(lp, lp.node))
    im = e.prog.cls(f"{PR}:LokyInitMainProcess").methods["__init__"]
    R.check(any(isinstance(n, ast.Call) and any(k.arg == "init_main_module" and isinstance(k.value, ast.Constant) and k.value.value is True for k in n.keywords)
                for n in func_nodes(im)), "R-MAIN-FLAG", "LokyInitMainProcess asks for the main module", im.short, "init_main_module=True", "loky_init_main no longer initialises __main__",
            e.loc(im, im.node))
    la = e.prog.func(f"{PP}:Popen._launch")
    gp = e.prog.func(f"{SP}:get_preparation_data")
    calls = [c for c in func_nodes(la) if isinstance(c, ast.Call) and gp.qualname in e.callees_of(c)]
    ok = bool(calls) and all(len(c.args) > 1 and "init_main_module" in norm(c.args[1]) for c in calls)
    R.check(ok, "R-MAIN-FLAG", "_launch forwards the process's init_main_module flag to the preparation data", la.short, norm(calls[0])[:80] if calls else "",
            "the flag is not forwarded: every worker (re)initialises __main__", e.loc(la, la.node))
    g = e.cfg(gp)
    flagp = gp.params[1] if len(gp.params) > 1 else None
    tests = [t for t in g.nodes if t.kind == "test" and isinstance(t.ast, ast.Name) and t.ast.id == flagp]
    keys = [n for n in g.nodes if n.kind == "stmt" and isinstance(n.ast, ast.Assign) and isinstance(n.ast.targets[0], ast.Subscript)
            and isinstance(n.ast.targets[0].slice, ast.Constant) and str(n.ast.targets[0].slice.value).startswith("init_main_from")]
    R.check(bool(tests) and len(keys) >= 2 and all(any(g.on_branch(k, t, "T") for t in tests) for k in keys), "R-MAIN-FLAG",
            "get_preparation_data adds the main-module keys only under the flag", gp.short, "if init_main_module: d['init_main_from_*']",
            "the main-module path/name is shipped regardless of the flag", e.loc(gp, gp.node))
    pr = e.prog.func(f"{SP}:prepare")
    pg = e.cfg(pr)
    fixq = {q for q, f_ in e.prog.funcs.items() if q.startswith(f"{SP}:") and any(
        isinstance(x, ast.Call) and norm(x.func) in ("runpy.run_module", "runpy.run_path") for x in func_nodes(f_))}
    if not fixq:
        raise AnalysisError("spawn: the functions re-running the parent's __main__ (runpy.run_module / run_path) not found")
    # a runpy call written in a lambda / nested function runs on behalf of the module-level function that creates it
    for q in list(fixq):
        f_ = e.prog.funcs[q]
        while f_.parent is not None and f_.parent.kind != "module":
            f_ = f_.parent
        fixq.add(f_.qualname)
    fix = [n for n in pg.nodes for c in calls_in(n) if e.callees_of(c) & fixq]
    ok = bool(fix) and all(any(t.kind == "test" and isinstance(t.ast, ast.Compare) and isinstance(t.ast.ops[0], ast.In) and isinstance(t.ast.left, ast.Constant)
                               and str(t.ast.left.value).startswith("init_main_from") and pg.on_branch(n, t, "T") for t in pg.nodes) for n in fix)
    R.check(ok, "R-MAIN-FLAG", "prepare() only fixes up __main__ when those keys were shipped", pr.short, "if 'init_main_from_name' in data", "__main__ is fixed up unconditionally",
            e.loc(pr, pr.node))
    R.floor("R-MAIN-FLAG", 6)


def r_exitcode(e, R):
    pc = e.prog.cls(f"{PP}:Popen")
    poll = pc.methods["poll"]
    g = e.cfg(poll)
    sig = [t for t in g.nodes if t.kind == "test" and isinstance(t.ast, ast.Call) and norm(t.ast.func) == "os.WIFSIGNALED"]
    stores = [n for n in g.nodes if n.kind == "stmt" and isinstance(n.ast, ast.Assign) and isinstance(n.ast.targets[0], ast.Attribute) and n.ast.targets[0].attr == "returncode"]
    oks = okx = False
    for n in stores:
        v = n.ast.value
        if sig and g.on_branch(n, sig[0], "T"):
            oks = isinstance(v, ast.UnaryOp) and isinstance(v.op, ast.USub) and isinstance(v.operand, ast.Call) and norm(v.operand.func) == "os.WTERMSIG"
        elif sig and g.on_branch(n, sig[0], "F"):
            okx = isinstance(v, ast.Call) and norm(v.func) == "os.WEXITSTATUS"
    R.check(oks, "R-EXITCODE", "poll: a signalled worker gets exitcode = -signal", poll.short, "self.returncode = -os.WTERMSIG(sts)",
            "the terminating signal of a worker is not reported as a negative exit code", e.loc(poll, poll.node))
    R.check(okx, "R-EXITCODE", "poll: an exited worker gets exitcode = exit status", poll.short, "self.returncode = os.WEXITSTATUS(sts)",
            "the exit status of a worker is not reported", e.loc(poll, poll.node))
    # the local bound to waitpid's first result
    wpid = {n.targets[0].elts[0].id for n in func_nodes(poll) if isinstance(n, ast.Assign) and isinstance(n.targets[0], ast.Tuple) and n.targets[0].elts
            and isinstance(n.targets[0].elts[0], ast.Name) and isinstance(n.value, ast.Call) and norm(n.value.func) == "os.waitpid"}
    pidt = [t for t in g.nodes if t.kind == "test" and isinstance(t.ast, ast.Compare) and len(t.ast.ops) == 1 and isinstance(t.ast.ops[0], ast.Eq)
            and {norm(t.ast.left), norm(t.ast.comparators[0])} in [{w, f"{poll.params[0]}.pid"} for w in wpid]]
    R.check(bool(pidt) and all(any(g.on_branch(n, t, "T") for t in pidt) for n in stores), "R-EXITCODE", "poll: the status is recorded only when waitpid reported this child",
            poll.short, "if pid == self.pid", "WNOHANG's (0, 0) is interpreted as an exit status: a live worker is reported dead with code 0", e.loc(poll, poll.node))
    rets = [n for n in g.nodes if n.kind == "stmt" and isinstance(n.ast, ast.Return)]
    R.check(any(norm(r.ast.value) == "self.returncode" for r in rets if r.ast.value is not None), "R-EXITCODE", "poll returns the recorded code", poll.short, "return self.returncode",
            "poll does not return the exit code", e.loc(poll, poll.node))
    wp = [c for c in func_nodes(poll) if isinstance(c, ast.Call) and norm(c.func) == "os.waitpid"]
    R.check(bool(wp) and all(norm(c.args[0]) == "self.pid" for c in wp), "R-EXITCODE", "poll waits on its own child", poll.short, "os.waitpid(self.pid, flag)", "waits on another pid",
            e.loc(poll, poll.node))
    # sentinel: the parent's read end of the pipe whose write end only the child inherits, closed by a finaliser
    la = pc.methods["_launch"]
    sent = [n for n in func_nodes(la) if isinstance(n, ast.Assign) and isinstance(n.targets[0], ast.Attribute) and n.targets[0].attr == "sentinel"]
    fins = [c for c in func_nodes(la) if isinstance(c, ast.Call) and norm(c.func).endswith("Finalize") and len(c.args) >= 3 and norm(c.args[1]) == "os.close"]
    # ... and it really is a *read* end: the first element of an os.pipe() pair (the write end goes to the child only)
    pipe_pairs = [n for n in func_nodes(la) if isinstance(n, ast.Assign) and isinstance(n.value, ast.Call) and norm(n.value.func) == "os.pipe" and isinstance(n.targets[0], ast.Tuple)
                  and len(n.targets[0].elts) == 2 and all(isinstance(x, ast.Name) for x in n.targets[0].elts)]
    read_ends = {n.targets[0].elts[0].id for n in pipe_pairs}
    write_of = {n.targets[0].elts[0].id: n.targets[0].elts[1].id for n in pipe_pairs}
    if sent and isinstance(sent[0].value, ast.Name):
        sname = sent[0].value.id
        R.check(sname in read_ends, "R-EXITCODE", "_launch: the sentinel is the read end of its pipe", la.short, f"{sname} from os.pipe()",
                "the sentinel is the write end of a pipe: it never becomes readable when the worker dies, so a crash is never detected", e.loc(la, sent[0]))
        if sname in write_of:
            wname = write_of[sname]
            closed_in_parent = any(isinstance(c_, ast.Call) and norm(c_.func) == "os.close" and c_.args and isinstance(c_.args[0], ast.Name) and
                                   (c_.args[0].id == wname or any(isinstance(fo, ast.For) and isinstance(fo.target, ast.Name) and fo.target.id == c_.args[0].id and
                                                                  isinstance(fo.iter, (ast.Tuple, ast.List)) and wname in [getattr(x, "id", None) for x in fo.iter.elts]
                                                                  for fo in func_nodes(la) if isinstance(fo, ast.For))) for c_ in func_nodes(la))
            R.check(closed_in_parent, "R-EXITCODE", "_launch: the parent closes its copy of the sentinel pipe's write end", la.short, f"os.close({wname})",
                    "the parent keeps the write end of the sentinel pipe: the sentinel never reports the worker's death", e.loc(la, sent[0]))
    ok = bool(sent) and bool(fins) and isinstance(fins[0].args[2], ast.Tuple) and norm(fins[0].args[2].elts[0]) == norm(sent[0].value)
    R.check(ok, "R-EXITCODE", "_launch: the sentinel is the parent's read end and has a closing finaliser", la.short, "self.sentinel = parent_r; Finalize(self, os.close, (parent_r,))",
            "the sentinel descriptor is never closed (one leaked fd per worker) or is not the monitored pipe end", e.loc(la, la.node))
    # polarity of the clean-up in _launch's finally, of poll and of wait (scenario obligations)
    from . import scenario as SC
    lg = e.cfg(la)
    if sent and isinstance(sent[0].value, ast.Name):
        sv = sent[0].value.id
        finn = lambda n: any(norm(c.func).endswith("Finalize") and len(c.args) >= 3 and norm(c.args[1]) == "os.close" for c in calls_in(n))
        fin_nodes = [n for n in lg.nodes if finn(n)]
        for fnode in fin_nodes[:1]:
            tests = [t for t in lg.nodes if t.kind == "test" and none_test(t.ast) and isinstance(none_test(t.ast)[0], ast.Name) and none_test(t.ast)[0].id == sv]
            okp = bool(tests) and all(not lg.on_branch(fnode, t, "F" if none_test(t.ast)[1] == "T" else "T") for t in tests) and \
                any(lg.on_branch(fn_, t, none_test(t.ast)[1]) for t in tests for fn_ in fin_nodes)
            R.check(okp, "R-EXITCODE", "_launch: the closing finaliser is installed exactly when the sentinel pipe was created", la.short, f"if {sv} is not None: Finalize(...)",
                    "the finaliser is installed for a pipe that does not exist (os.close(None) at collection) and not for the one that does (one leaked fd per worker)",
                    e.loc(la, fnode.ast))
    closes = [n for n in lg.nodes for c in calls_in(n) if norm(c.func) == "os.close" and c.args and isinstance(c.args[0], ast.Name)]
    for cn in closes:
        v = [c.args[0].id for c in calls_in(cn) if norm(c.func) == "os.close"][0]
        tests = [t for t in lg.nodes if t.kind == "test" and none_test(t.ast) and isinstance(none_test(t.ast)[0], ast.Name) and none_test(t.ast)[0].id == v]
        if not tests:
            continue
        R.check(any(lg.on_branch(cn, t, none_test(t.ast)[1]) for t in tests), "R-EXITCODE", f"_launch: `os.close({v})` runs exactly when `{v}` is a descriptor", la.short,
                f"if {v} is not None: os.close({v})", "the child's pipe ends stay open in the parent (two leaked fds per worker; the sentinel never reports the exit "
                "because the parent itself holds the write end) or os.close(None) raises", e.loc(la, cn.ast))
    rc = lambda x: isinstance(x, ast.Attribute) and x.attr == "returncode" and isinstance(x.value, ast.Name) and x.value.id == poll.params[0]
    wpn = lambda n: any(norm(c.func) == "os.waitpid" for c in calls_in(n))
    SC.must(e, R, "R-EXITCODE", poll, "no exit code is recorded yet", [(rc, "none")], wpn, "asks the OS (waitpid)", "poll() never notices that the worker exited: is_alive() stays True, join() hangs")
    SC.never(e, R, "R-EXITCODE", poll, "the exit code is already recorded", [(rc, "some")], wpn, "a second waitpid", "waitpid on a reaped pid: ChildProcessError or, worse, another process's status")
    wt = pc.methods.get("wait")
    if wt is not None:
        rcw = lambda x: isinstance(x, ast.Attribute) and x.attr == "returncode" and isinstance(x.value, ast.Name) and x.value.id == wt.params[0]
        pollc = lambda n: any(poll.qualname in e.callees_of(c) or (isinstance(c.func, ast.Attribute) and c.func.attr == "poll" and isinstance(c.func.value, ast.Name)
                                                                     and c.func.value.id == wt.params[0]) for c in calls_in(n))
        tmo = wt.params[1] if len(wt.params) > 1 else None
        SC.must(e, R, "R-EXITCODE", wt, "no exit code is recorded and no timeout is given", [(rcw, "none"), (SC.name(tmo), "none")], pollc, "polls (blocking)",
                "join() returns at once while the worker is still running")
    # an exited-but-unwaitable child (ECHILD) does not raise out of poll
    wp_nodes = [n for n in g.nodes if wpn(n)]
    for n in wp_nodes:
        hs = [m for m, l in n.succ if l == "exc" and m.kind == "except"]
        R.check(any(h.ast.type is None or norm(h.ast.type) in ("OSError", "ChildProcessError", "Exception", "BaseException") for h in hs), "R-EXITCODE",
                "poll: a failing waitpid (ECHILD: reaped elsewhere) is tolerated", poll.short, "except OSError", "poll()/is_alive()/join() raise for a worker whose status was "
                "collected by someone else (e.g. a SIGCHLD handler)", e.loc(poll, n.ast))
    R.floor("R-EXITCODE", 11)


# ---------------------------------------------------------------------------
# R-DEPTH (C19)
# ---------------------------------------------------------------------------

def depth_check_func(e):
    a = e.anchors
    init = a.init
    cands = set()
    for n in func_nodes(init):
        if isinstance(n, ast.Call):
            for q in e.callees_of(n):
                cf = e.prog.funcs[q]
                if any(isinstance(x, ast.Raise) for x in func_nodes(cf)) and any(
                        isinstance(x, ast.Name) and x.id == "MAX_DEPTH" for x in func_nodes(cf)):
                    cands.add(q)
    if not cands:
        # not called from the constructor (any more): the function of the executor module that compares with MAX_DEPTH and raises
        cands = {q for q, cf in e.prog.funcs.items() if cf.module.name == init.module.name and cf.kind == "def" and cf.parent is None and cf.cls is None
                 and any(isinstance(x, ast.Raise) for x in func_nodes(cf)) and any(isinstance(x, ast.Name) and x.id == "MAX_DEPTH" for x in func_nodes(cf))}
    if len(cands) != 1:
        raise AnalysisError(f"depth check called from the constructor not unique: {sorted(cands)}")
    return e.prog.funcs[cands.pop()]


def _bootstrap_guard(e, R):
    """While a worker is being bootstrapped (its process object -- initializer, initargs, depth -- is being unpickled, `_inheriting`
    set) its nesting depth is not installed yet: code running then sees the depth the interpreter started with.  The spawn path refuses
    to start a process in that state, unconditionally, for every start method; otherwise an executor created while unpickling an
    initializer argument spawns workers that restart the depth count."""
    chk = [f for q, f in e.prog.funcs.items() if q.startswith("loky.backend.spawn:") and
           any((isinstance(n, ast.Attribute) and n.attr == "_inheriting") or (isinstance(n, ast.Constant) and n.value == "_inheriting") for n in func_nodes(f))
           and any(isinstance(n, ast.Raise) for n in func_nodes(f))]
    if len(chk) != 1:
        raise AnalysisError(f"the bootstrapping guard of the spawn path is not unique: {[f.short for f in chk]}")
    gp = e.prog.func("loky.backend.spawn:get_preparation_data")
    g = e.cfg(gp)
    calls = [n for n in g.nodes for c in calls_in(n) if chk[0].qualname in e.callees_of(c)]
    esc = g.escape_path(g.entry, lambda n: n in calls, use_exc=False) if calls else [g.entry]
    R.check(bool(calls) and esc is None, "R-DEPTH", f"{gp.short}: refuses to spawn while this process is still being bootstrapped, on every path", gp.short,
            f"{chk[0].short}() unconditional", "a process can be spawned while the current worker is still unpickling its process object (initializer / "
            "initargs): its depth is not installed yet, so an executor created there passes the depth check and hands depth 1 to its workers at any "
            "real depth: the nesting bound is gone on that path", e.loc(gp, gp.node), g.fmt_path(esc) if esc else None)


def _binds_atom(st, classify):
    """does the assignment bind one of the names the decision table reads (or a name a later test could read)?  Only assignments to plain
    local names whose value does not involve an atom are transparent."""
    tgts = st.targets if isinstance(st, ast.Assign) else [st.target]
    if not all(isinstance(t_, ast.Name) for t_ in tgts):
        return True
    if any(classify(t_) is not None for t_ in tgts):
        return True
    return st.value is not None and any(classify(x) is not None for x in ast.walk(st.value) if isinstance(x, (ast.Name, ast.Call)))


def r_depth(e, R):
    a = e.anchors
    _bootstrap_guard(e, R)
    init = a.init
    dc = depth_check_func(e)
    g = e.cfg(init)
    chk = [n for n in g.nodes for c in calls_in(n) if dc.qualname in e.callees_of(c)]
    # before any queue / lock / pipe is created
    allocs = [n for n in g.nodes for c in calls_in(n) if (e.objs(init, c) & (a.pml | a.wakeup_objs)) or
              any(q.endswith("._setup_queues") for q in e.callees_of(c))]
    R.check(bool(chk) and bool(allocs) and all(any(g.dominates(c, x) for c in chk) for x in allocs), "R-DEPTH",
            "constructor: the depth check precedes the creation of locks, pipes and queues", init.short, "_check_max_depth(context)",
            "resources (semaphores, pipes) are created before the depth check refuses the executor", e.loc(init, init.node))
    esc = g.escape_path(g.entry, lambda n: n in chk, use_exc=False)
    R.check(esc is None, "R-DEPTH", "constructor: every constructing path runs the depth check", init.short, "_check_max_depth", "an executor can be constructed without the depth check",
            e.loc(init, init.node))
    # subclass constructors reach the base constructor
    for cq, c in e.prog.classes.items():
        if e.pt.is_subclass(cq, a.executor_cls) and cq != a.executor_cls and "__init__" in c.methods:
            m = c.methods["__init__"]
            mg = e.cfg(m)
            sup = [n for n in mg.nodes for cc in calls_in(n) if init.qualname in e.callees_of(cc)]
            esc = mg.escape_path(mg.entry, lambda n: n in sup, use_exc=False)
            R.check(bool(sup) and esc is None, "R-DEPTH", f"{m.short}: always reaches the base constructor (and its depth check)", m.short, "super().__init__",
                    "a subclass executor bypasses the depth check", e.loc(m, m.node))
    # the guards
    ifs = [n for n in func_nodes(dc) if isinstance(n, ast.If)]
    depth_glob = None
    for n in func_nodes(a.worker_main):
        if isinstance(n, ast.Assign) and isinstance(n.targets[0], ast.Name) and n.targets[0].id in a.worker_main.globals_decl and isinstance(n.value, ast.Name) \
                and n.value.id in a.worker_main.params:
            depth_glob = n.targets[0].id
    if depth_glob is None:
        raise AnalysisError("worker: the depth global is not installed")

    def classify(x):
        if isinstance(x, ast.Name) and x.id == depth_glob:
            return "D"
        if isinstance(x, ast.Name) and x.id == "MAX_DEPTH":
            return "M"
        if isinstance(x, ast.Call) and isinstance(x.func, ast.Attribute) and x.func.attr == "get_start_method":
            return "SM"
        return None
    # whole-function decision table: the check raises iff (fork and depth >= 1) or (MAX_DEPTH > 0 and depth >= MAX_DEPTH)
    class _Ret(Exception):
        pass

    class _Rai(Exception):
        pass

    def interp(stmts, env):
        for s_ in stmts:
            if isinstance(s_, ast.If):
                interp(s_.body if guards.eval_guard(s_.test, env, classify) else s_.orelse, env)
            elif isinstance(s_, ast.Raise):
                raise _Rai()
            elif isinstance(s_, ast.Return):
                raise _Ret()
            elif isinstance(s_, (ast.Global, ast.Pass, ast.Expr)):
                continue
            elif isinstance(s_, (ast.Assign, ast.AugAssign, ast.AnnAssign)) and not _binds_atom(s_, classify):
                continue            # building the message text: no effect on whether the check raises
            else:
                raise guards.Inconclusive(f"statement {type(s_).__name__} in the depth check")
    rows = 0
    try:
        for D in range(0, 5):
            for M in range(-2, 5):
                for SM in ("fork", "loky", "spawn"):
                    env = {"D": D, "M": M, "SM": SM}
                    try:
                        interp(dc.node.body, env)
                        got = False
                    except _Ret:
                        got = False
                    except _Rai:
                        got = True
                    want = (SM == "fork" and D >= 1) or (M > 0 and D >= M)
                    rows += 1
                    if got != want:
                        R.fail("R-DEPTH", dc.short, "whole-function table", f"the depth check {'raises' if got else 'accepts'} at depth {D} with "
                               f"MAX_DEPTH={M} under the '{SM}' start method; it must {'raise' if want else 'accept'} (raise iff fork and depth >= 1, or "
                               "MAX_DEPTH > 0 and depth >= MAX_DEPTH)", e.loc(dc, dc.node), instance=f"{dc.short}: row depth={D} max={M} {SM}")
                        raise StopIteration
        R.ok("R-DEPTH", f"{dc.short}: as a whole raises iff (fork and depth >= 1) or (MAX_DEPTH > 0 and depth >= MAX_DEPTH) on {rows} rows", e.loc(dc, dc.node))
    except StopIteration:
        pass
    except guards.Inconclusive as ex:
        raise AnalysisError(f"depth check: {ex}")
    seen_depth = seen_fork = False
    for i in []:
        names = {x.id for x in ast.walk(i.test) if isinstance(x, ast.Name)}
        raises = [x for x in ast.walk(i) if isinstance(x, ast.Raise)]
        okr = bool(raises) and all(isinstance(r.exc, ast.Call) and any(v == ("class", f"{PE}:LokyRecursionError") for v in e.pt.ev(dc, r.exc.func)) for r in raises)
        if "MAX_DEPTH" in names:
            seen_depth = True
            try:
                nm, tab, bad = guards.compare(i.test, {"D": list(range(0, 6)), "M": list(range(-2, 6)), "SM": ["loky"]}, classify,
                                              lambda env: env["M"] > 0 and env["D"] >= env["M"])
            except guards.Inconclusive as ex:
                raise AnalysisError(f"depth guard: {ex}")
            R.info["depth_guard_rows"] = len(tab)
            for env, got, want in bad[:1]:
                R.fail("R-DEPTH", dc.short, norm(i.test), f"the depth guard is {got} at depth {env['D']} with MAX_DEPTH={env['M']} (must be {want}): creating an executor "
                       "must fail iff MAX_DEPTH > 0 and depth >= MAX_DEPTH", e.loc(dc, i.test), instance=f"depth guard row {env}")
            if not bad:
                R.ok("R-DEPTH", f"{dc.short}: depth guard `{norm(i.test)}` == (MAX_DEPTH > 0 and depth >= MAX_DEPTH) on {len(tab)} rows", e.loc(dc, i.test))
            R.check(okr, "R-DEPTH", f"{dc.short}: exceeding the limit raises LokyRecursionError", dc.short, "raise LokyRecursionError", "the limit raises another error / only warns",
                    e.loc(dc, i))
        elif any(isinstance(x, ast.Constant) and x.value == "fork" for x in ast.walk(i.test)):
            seen_fork = True
            try:
                nm, tab, bad = guards.compare(i.test, {"D": list(range(0, 4)), "M": [10], "SM": ["fork", "loky", "spawn"]}, classify,
                                              lambda env: env["SM"] == "fork" and env["D"] >= 1)
            except guards.Inconclusive as ex:
                raise AnalysisError(f"fork guard: {ex}")
            R.check(not bad and okr, "R-DEPTH", f"{dc.short}: under 'fork' nesting is refused at depth >= 1", dc.short, norm(i.test),
                    f"fork guard wrong for {bad[0][0] if bad else ''}", e.loc(dc, i.test))
    raises = [x for x in func_nodes(dc) if isinstance(x, ast.Raise)]
    okr = bool(raises) and all(isinstance(r.exc, ast.Call) and any(v == ("class", f"{PE}:LokyRecursionError") for v in e.pt.ev(dc, r.exc.func)) for r in raises)
    R.check(okr, "R-DEPTH", f"{dc.short}: refusals raise LokyRecursionError", dc.short, "raise LokyRecursionError", "the limit raises another error / only warns",
            e.loc(dc, dc.node))
    # MAX_DEPTH from the environment with an integer default
    mod = e.prog.modules[PE]
    md = [n for n in func_nodes(mod.body_func) if isinstance(n, ast.Assign) and isinstance(n.targets[0], ast.Name) and n.targets[0].id == "MAX_DEPTH"]
    okm = len(md) == 1 and isinstance(md[0].value, ast.Call) and norm(md[0].value.func) == "int" and "LOKY_MAX_DEPTH" in norm(md[0].value) and \
        any(isinstance(x, ast.Constant) and isinstance(x.value, int) and x.value >= 1 for x in ast.walk(md[0].value))
    R.check(okm, "R-DEPTH", "MAX_DEPTH = int(environ.get('LOKY_MAX_DEPTH', <positive default>))", PE, norm(md[0]) if md else "", "MAX_DEPTH is not read from LOKY_MAX_DEPTH",
            e.loc(mod.body_func, md[0]) if md else None)
    d0 = [n for n in func_nodes(mod.body_func) if isinstance(n, ast.Assign) and isinstance(n.targets[0], ast.Name) and n.targets[0].id == depth_glob]
    R.check(len(d0) == 1 and isinstance(d0[0].value, ast.Constant) and d0[0].value.value == 0, "R-DEPTH", "the root process is at depth 0", PE, norm(d0[0]) if d0 else "",
            "root depth is not 0", None)
    # the worker installs its depth before the task loop; nobody else writes it
    w = a.worker_main
    wg = e.cfg(w)
    gets = [n for n in wg.nodes for c in calls_in(n) if e.receiver_objs(w, c, ("get",)) & a.callq]
    inst = [n for n in wg.nodes if n.kind == "stmt" and isinstance(n.ast, ast.Assign) and isinstance(n.ast.targets[0], ast.Name) and n.ast.targets[0].id == depth_glob]
    R.check(bool(inst) and all(any(wg.dominates(i, x) for i in inst) for x in gets), "R-DEPTH", "worker: installs the shipped depth before serving tasks", w.short,
            f"{depth_glob} = current_depth", "tasks can run (and create nested executors) before the worker knows its depth", e.loc(w, w.node))
    # ... and before *any* user code runs in the worker: the initializer is user code too (it may build an executor)
    user_calls = [n for n in wg.nodes for c in calls_in(n) if isinstance(c.func, ast.Name) and c.func.id in w.params]
    if not user_calls:
        raise AnalysisError("worker: the initializer call (a call of one of the worker's own parameters) not found")
    for u in user_calls:
        R.check(bool(inst) and any(wg.dominates(i, u) for i in inst), "R-DEPTH", "worker: installs the shipped depth before the initializer runs", w.short,
                norm(u.ast)[:60], "the initializer (user code) runs while the worker still believes it is at depth 0: an executor built by an "
                "initializer passes the depth check at any real depth, and its workers are again told depth 1", e.loc(w, u.ast))
    writers = [f for f in e.prog.funcs.values() if f.module.name == PE and f.kind != "module" and depth_glob in f.globals_decl and
               any(isinstance(n, ast.Name) and n.id == depth_glob and isinstance(n.ctx, ast.Store) for n in func_nodes(f))]
    R.check({f.qualname for f in writers} == {w.qualname}, "R-DEPTH", "only the worker main writes the depth global", PE, str([f.short for f in writers]),
            "the depth is modified elsewhere (e.g. reset by an executor)", None)
    R.floor("R-DEPTH", 9)


# ---------------------------------------------------------------------------
# R-LEAK (C20)
# ---------------------------------------------------------------------------

def r_leak(e, R):
    a = e.anchors
    # (1) wake-up close closes both ends
    wc = a.wake_close_method
    closes = [c for c in func_nodes(wc) if isinstance(c, ast.Call) and isinstance(c.func, ast.Attribute) and c.func.attr == "close"]
    conns = set()
    for c in closes:
        conns |= {v for v in e.pt.ev(wc, c.func.value) if v[0] == "obj" and v[2] == "ext:Connection"}
    R.check(len(conns) == 2, "R-LEAK", "wake-up close() closes both ends of the pipe", wc.short, f"{len(conns)} connection(s) closed", "one end of the wake-up pipe leaks per executor",
            e.loc(wc, wc.node))
    # (2) SimpleQueue.close closes reader and writer
    sq = e.prog.cls("loky.backend.queues:SimpleQueue").methods.get("close")
    okq = sq is not None and {norm(c.func) for c in func_nodes(sq) if isinstance(c, ast.Call)} >= {"self._reader.close", "self._writer.close"}
    R.check(okq, "R-LEAK", "SimpleQueue.close() closes reader and writer", "SimpleQueue.close", "reader/writer close", "the result queue keeps a descriptor open per executor",
            e.loc(sq, sq.node) if sq else None)
    # (3) both manager exits reach join-internals (which closes the three and joins)
    ji = join_internals_func(e)
    run = a.manager_run
    g = e.cfg(run)
    br = broken_routine(e)
    jn = effect_nodes(e, run, calls_method_of(e, [ji.qualname]))
    exits = [p for p, l in g.exit.pred]
    R.check(bool(jn) and all(any(g.dominates(j, x) for j in jn) for x in exits), "R-LEAK", "every exit of the manager loop is preceded by the join of the executor internals",
            run.short, "join_executor_internals()", "the manager can end without closing the queues/wake-up pipe and joining the workers", e.loc(run, run.node))
    bw = e.func_calls_trans(br.qualname, calls_method_of(e, [ji.qualname]))
    R.check(bw is not None, "R-LEAK", "the broken-pool routine joins the executor internals", br.short, "join_executor_internals()",
            "a broken pool leaves its queues, pipes and zombie workers behind", e.loc(br, br.node))
    # (4) every process removed from the table is joined (reaped)
    for f, c, recvs in e.method_calls(("pop", "popitem"), lambda o: o in a.processes):
        fg = e.cfg(f)
        st = stmt_of(e, f, c)
        var = None
        if isinstance(st, ast.Assign):
            t = st.targets[0]
            var = t.id if isinstance(t, ast.Name) else (t.elts[-1].id if isinstance(t, (ast.Tuple, ast.List)) and isinstance(t.elts[-1], ast.Name) else None)
        if var is None:
            R.fail("R-LEAK", f.short, norm(st), "a worker is removed from the table and dropped", e.loc(f, c))
            continue
        kill = kill_pred(e)

        def reaps(n, var=var, f=f):
            for cc in calls_in(n):
                if isinstance(cc.func, ast.Attribute) and cc.func.attr == "join" and isinstance(cc.func.value, ast.Name) and cc.func.value.id == var:
                    return True
                if kill(f, cc) and cc.args and isinstance(cc.args[0], ast.Name) and cc.args[0].id == var:
                    return True
            return False

        def edge_ok(n, m, label, var=var):
            if n.kind == "test":
                nt = none_test(n.ast)
                if nt and isinstance(nt[0], ast.Name) and nt[0].id == var and label not in (nt[1], "exc"):
                    return False
            return True
        bad = None
        for n in cfg_nodes(e, f, st):
            wpath = fg.escape_path(n, reaps, edge_ok=edge_ok, use_exc=False)
            if wpath is not None:
                bad = wpath
        R.check(bad is None, "R-LEAK", f"{f.short}: the worker removed by `{norm(c)[:40]}` is joined / tree-killed-and-joined on every path", f.short, norm(st),
                "a worker process is dropped from the table without being reaped (zombie accumulating per lifecycle)", e.loc(f, c), fg.fmt_path(bad) if bad else None)
    # (5) shutdown() drops the fd-holding references
    F = nulled_fields(e)
    exf = a.exec_fields
    need = set()
    for attr, vals in exf.items():
        if vals & (a.callq | a.resq | a.wakeup_objs | a.pml | a.manager_objs):
            need.add(attr)
    R.check(need <= F, "R-LEAK", f"shutdown() drops its references to {sorted(need)}", a.shutdown.short, f"nulled {sorted(F)}",
            f"shutdown() keeps {sorted(need - F)}: descriptors stay open as long as the user holds the executor", e.loc(a.shutdown, a.shutdown.node))
    # (5b) once every worker was killed nobody reads the call queue any more: the parent must close ITS reader end, otherwise a
    # feeder thread blocked in send_bytes on a full pipe never gets EPIPE and leaks (thread + queue descriptors + semaphores)
    from .broken import kill_workers_func
    kw = kill_workers_func(e)

    def closes_reader(f, c):
        if not (isinstance(c.func, ast.Attribute) and c.func.attr == "close"):
            return False
        x = c.func.value
        return isinstance(x, ast.Attribute) and bool(e.objs(f, x.value) & a.callq) and \
            any(o[0] == "obj" and o[2].startswith("extfield:") and o[2].endswith("_reader") for o in e.objs(f, x))
    for q in sorted({kw.qualname} | {cq for cq, k, c in e.redges().get(kw.qualname, ())}):
        pass
    callers = [(e.prog.funcs[cq], c) for cq, k, c in e.redges().get(kw.qualname, ()) if e.prog.funcs[cq].module.name != "__user__"]
    for cf, c in callers:
        w = e.func_calls_trans(kw.qualname, closes_reader)
        if w is None:
            # or the caller does it itself after the kill, before joining the internals
            cg = e.cfg(cf)
            kn = cfg_nodes(e, cf, c)
            cl = effect_nodes(e, cf, closes_reader)
            w = True if kn and all(cg.escape_path(n, lambda m: m in cl, use_exc=False) is None for n in kn) and cl else None
        R.check(w is not None, "R-LEAK", f"{cf.short}: after killing every worker the parent closes its reader end of the call queue", cf.short,
                "call_queue._reader.close() after kill_workers", "after the workers are killed nothing reads the call queue, but the parent keeps its own "
                "reader end open: a feeder thread blocked writing a large task never fails with EPIPE and stays blocked forever -- one leaked thread, "
                "two descriptors and three semaphores per broken/killed executor", e.loc(cf, c))
    # (6) the sentinel has a closing finaliser (R-EXITCODE) and the launch closes its child ends (R-SPAWN-FRESH) -- referenced, not duplicated
    R.floor("R-LEAK", 8)


# ---------------------------------------------------------------------------
# R-VENDOR
# ---------------------------------------------------------------------------
def r_vendor(e, R):
    """loky is written to be vendored (joblib ships it as joblib.externals.loky): every import inside the package is relative, and the
    two child interpreters it starts (the worker: `-m <module>`, the resource tracker: `-c "from <module> import main; ..."`) are told the
    module name under which *this copy* was imported.  A literal `loky....` name makes the child import another copy or fail with
    ModuleNotFoundError: the tracker never starts (nothing is ever unlinked, C11-C13), the worker never starts (C18)."""
    import re
    pat = re.compile(r"(^|[;\s])(from|import)\s+loky(\.|\s|$)")
    n_dyn = 0
    for mname, mod in e.prog.modules.items():
        if not mname.startswith("loky") or mname == "__user__":
            continue
        if mod.path.endswith(("_win32.py", "_win_reduction.py")):
            continue
        doc = {id(s.value) for n in ast.walk(mod.tree) if isinstance(n, (ast.Module, ast.FunctionDef, ast.ClassDef, ast.AsyncFunctionDef)) for s in n.body[:1]
               if isinstance(s, ast.Expr) and isinstance(s.value, ast.Constant)}
        n_imp, bad_imp = 0, []
        for n in ast.walk(mod.tree):
            if isinstance(n, (ast.Import, ast.ImportFrom)):
                names = [al.name for al in n.names] if isinstance(n, ast.Import) else ([n.module or ""] if n.level == 0 else [])
                for nm in names:
                    n_imp += 1
                    if nm == "loky" or nm.startswith("loky."):
                        bad_imp.append((nm, n.lineno))
            if isinstance(n, ast.Constant) and isinstance(n.value, str) and id(n) not in doc and pat.search(n.value):
                R.check(False, "R-VENDOR", f"{mod.path}: code strings do not name the package literally", mname, n.value.strip()[:60],
                        f"the code string `{n.value.strip()[:60]}` imports loky by a literal name: run by a child interpreter of a vendored copy it fails with ModuleNotFoundError "
                        "(the resource tracker never starts: registered semaphores and files are never unlinked)", f"{mod.path}:{n.lineno}")
            if isinstance(n, (ast.List, ast.Tuple)):
                for x, y in zip(n.elts, n.elts[1:]):
                    if isinstance(x, ast.Constant) and x.value == "-m":
                        lit = isinstance(y, ast.Constant)
                        n_dyn += 0 if lit else 1
                        R.check(not lit, "R-VENDOR", f"{mod.path}: the module run by the child (`-m`) is named dynamically", mname, f"-m {norm(y)}",
                                "the child interpreter is started with a literal module name: a vendored copy starts another package's code or fails", f"{mod.path}:{n.lineno}")
            # the same command built with str.format / % from a template: `"from {} import main; ...".format(main.__module__, ...)`
            if isinstance(n, ast.Constant) and isinstance(n.value, str) and id(n) not in doc and re.search(r"(^|[;\s])(from|import)\s+(\{\w*\}|%s|%\(\w+\)s)", n.value):
                n_dyn += 1
                R.ok("R-VENDOR", f"{mod.path}: import in a code-string template names the module through a placeholder (`{n.value.strip()[:40]}`)", f"{mod.path}:{n.lineno}")
            if isinstance(n, ast.JoinedStr):
                txt = "".join(v.value if isinstance(v, ast.Constant) else "\0" for v in n.values)
                if re.search(r"(^|[;\s])(from|import)\s+\0", txt):
                    n_dyn += 1
                    R.ok("R-VENDOR", f"{mod.path}: import in a code string names the module dynamically (`{norm(n)[:50]}`)", f"{mod.path}:{n.lineno}")
        for nm, ln in bad_imp:
            R.fail("R-VENDOR", mname, f"import {nm}", "an absolute import of `loky` inside the package binds a *different* copy (or fails) when loky is vendored under "
                   "another name (joblib.externals.loky)", f"{mod.path}:{ln}", instance=f"{mod.path}: imports of the package's own modules are relative")
        if not bad_imp:
            R.ok("R-VENDOR", f"{mod.path}: all {n_imp} absolute imports name other packages (own modules are imported relatively)", mod.path)
    if n_dyn < 2:
        R.fail("R-VENDOR", "child launch", "dynamic module names", f"only {n_dyn} of the two child launch commands (worker `-m`, tracker `-c`) name loky's module dynamically "
               "(`__module__` / `__name__`)", None)
    R.floor("R-VENDOR", 3)


# ---------------------------------------------------------------------------
# R-INIT-TRUTH
# ---------------------------------------------------------------------------
def r_init_truth(e, R):
    """The initializer is a user object: "no initializer" is `None`, decided by identity.  Its truth value is user code (__bool__ / __len__):
    a callable that is also an empty container, or defines a falsy __bool__, would silently be dropped and every worker would run tasks
    uninitialised.  Checked wherever the value given as `initializer=` (public keyword of the executors) is handled before it is shipped."""
    n_funcs = n_tests = 0
    for q, f in e.prog.funcs.items():
        if f.module.name == "__user__" or not (q.startswith("loky.initializers:") or q.startswith("loky.process_executor:") or q.startswith("loky.reusable_executor:")):
            continue
        names = {p_ for p_ in f.params + f.kwonly if p_ == "initializer"}
        if q.startswith("loky.initializers:") and any("initializer" in p_ for p_ in list(f.params) + sorted(f.locals)):
            names |= {"initializer"} & (set(f.params) | set(f.locals))
            names.add("\0")           # the function handles initializers: analyse it even if the scalar is only a loop target
        if not names:
            continue
        # elements unpacked from a tainted container by a for / comprehension
        conts = {p_ for p_ in list(f.params) + sorted(f.locals) if "initializer" in p_ and p_ != "initializer"}
        for n in ast.walk(f.node):
            gens = n.generators if isinstance(n, (ast.ListComp, ast.SetComp, ast.GeneratorExp, ast.DictComp)) else []
            loops = [(n.target, n.iter)] if isinstance(n, ast.For) else [(g_.target, g_.iter) for g_ in gens]
            for tgt, it in loops:
                if isinstance(it, ast.Name) and it.id in conts:
                    first = tgt.elts[0] if isinstance(tgt, ast.Tuple) and tgt.elts else tgt
                    if isinstance(first, ast.Name):
                        names.add(first.id)
        n_funcs += 1
        tests = []
        for n in ast.walk(f.node):
            if isinstance(n, (ast.If, ast.IfExp, ast.While, ast.Assert)):
                tests.append(n.test)
            elif isinstance(n, ast.BoolOp):
                tests += n.values
            elif isinstance(n, ast.UnaryOp) and isinstance(n.op, ast.Not):
                tests.append(n.operand)
            elif isinstance(n, (ast.ListComp, ast.SetComp, ast.GeneratorExp, ast.DictComp)):
                tests += [i_ for g_ in n.generators for i_ in g_.ifs]
        for t_ in tests:
            x = t_
            while isinstance(x, ast.UnaryOp) and isinstance(x.op, ast.Not):
                x = x.operand
            if isinstance(x, ast.Name) and x.id in names:
                n_tests += 1
                R.fail("R-INIT-TRUTH", f.short, f"truth value of {x.id}", f"`{norm(t_)[:50]}` decides whether there is an initializer by the truth value of the user's object: "
                       "a callable initializer whose class defines __len__ / __bool__ (an empty dict / list subclass used as a set-up object) is treated as absent "
                       "and every worker -- initial, respawned, added by a resize -- runs tasks without having been initialised", e.loc(f, t_))
    if n_funcs < 2:
        raise AnalysisError(f"R-INIT-TRUTH: only {n_funcs} functions handling the `initializer` argument found")
    if not n_tests:
        R.ok("R-INIT-TRUTH", f"the {n_funcs} functions handling the `initializer` argument test it by identity only", None)


# ---------------------------------------------------------------------------
# R-CTX-NAME (C18): get_context(method) resolves the start method the caller named
# ---------------------------------------------------------------------------

def r_ctx_name(e, R):
    """`get_context(method)` hands multiprocessing the name `method or <default set by set_start_method> or 'loky'`: an explicit
    request always wins, the default only fills in for "not given".  The resolution statements are folded over the small domain of
    (requested, default) names (a decision table; nothing of loky is executed)."""
    CXQ = "loky.backend.context"
    f = e.prog.func(f"{CXQ}:get_context")
    mod = e.prog.modules[CXQ]
    p0 = f.params[0] if f.params else None
    if p0 is None:
        raise AnalysisError("get_context has no method parameter")
    defaults = {n.targets[0].id for n in func_nodes(mod.body_func) if isinstance(n, ast.Assign) and isinstance(n.targets[0], ast.Name)
                and isinstance(n.value, ast.Constant) and n.value.value is None and n.targets[0].id.isupper()}
    setter = [q for q, fn in e.prog.funcs.items() if q.startswith(CXQ + ":") and fn.globals_decl & defaults]
    dnames = {g_ for q in setter for g_ in e.prog.funcs[q].globals_decl & defaults}
    if len(dnames) != 1:
        raise AnalysisError(f"context: the module-level default start method set by set_start_method not identified ({sorted(dnames)})")
    dname = dnames.pop()

    class _Done(Exception):
        pass

    def ev(x, env):
        if isinstance(x, ast.Constant):
            return x.value
        if isinstance(x, ast.Name):
            if x.id in env:
                return env[x.id]
            raise AnalysisError(f"get_context: reads `{x.id}` while resolving the start method")
        if isinstance(x, ast.BoolOp):
            v = None
            for o in x.values:
                v = ev(o, env)
                if (isinstance(x.op, ast.Or) and v) or (isinstance(x.op, ast.And) and not v):
                    return v
            return v
        if isinstance(x, ast.UnaryOp) and isinstance(x.op, ast.Not):
            return not ev(x.operand, env)
        if isinstance(x, ast.IfExp):
            return ev(x.body, env) if ev(x.test, env) else ev(x.orelse, env)
        if isinstance(x, (ast.Tuple, ast.List, ast.Set)):
            return [ev(v, env) for v in x.elts]
        if isinstance(x, ast.Compare) and len(x.ops) == 1:
            l, r, op = ev(x.left, env), ev(x.comparators[0], env), x.ops[0]
            tbl = {ast.Eq: lambda: l == r, ast.NotEq: lambda: l != r, ast.Is: lambda: l is r, ast.IsNot: lambda: l is not r,
                   ast.In: lambda: l in r, ast.NotIn: lambda: l not in r}
            if type(op) in tbl:
                return tbl[type(op)]()
        raise AnalysisError(f"get_context: `{norm(x)[:60]}` not interpretable while resolving the start method")

    def is_ctx_call(x):
        # the request handed to multiprocessing: <...>get_context(<name>)
        return isinstance(x, ast.Call) and len(x.args) == 1 and not x.keywords and norm(x.func).split(".")[-1].endswith("get_context") \
            and f.qualname not in e.callees_of(x)

    def run(stmts, env):
        for s in stmts:
            if isinstance(s, (ast.Assign, ast.Return, ast.Expr)) and is_ctx_call(s.value):
                env["\0result"] = ev(s.value.args[0], env)
                raise _Done()
            if isinstance(s, ast.Assign) and len(s.targets) == 1 and isinstance(s.targets[0], ast.Name):
                env[s.targets[0].id] = ev(s.value, env)
            elif isinstance(s, ast.If):
                run(s.body if ev(s.test, env) else s.orelse, env)
            elif isinstance(s, ast.Try):
                run(s.body, env)
            elif isinstance(s, (ast.Expr, ast.Pass)):
                continue
            else:
                raise AnalysisError(f"get_context: statement `{norm(s)[:60]}` not interpretable while resolving the start method")

    bad = None
    n = 0
    for req in (None, "", "loky", "loky_init_main", "spawn", "forkserver"):
        for dflt in (None, "loky", "loky_init_main", "spawn"):
            env = {p0: req, dname: dflt}
            try:
                run(f.body, env)
            except _Done:
                pass
            got = env.get("\0result", "<no context requested>")
            want = req or dflt or "loky"
            n += 1
            if got != want and bad is None:
                bad = (req, dflt, got, want)
    R.check(bad is None, "R-CTX-NAME", f"get_context: the start method is `method or {dname} or 'loky'` on all {n} (requested, default) pairs", f.short,
            "method or default or 'loky'",
            (f"get_context({bad[0]!r}) with set_start_method({bad[1]!r}) in effect asks multiprocessing for {bad[2]!r} instead of {bad[3]!r}: an explicit request "
             "is overridden by the process-wide default (after set_start_method('loky_init_main') a pool asked for by the name 'loky' re-runs the "
             "parent's __main__ in every worker; with 'spawn' it is not a loky pool at all) or the default is ignored") if bad else "", e.loc(f, f.node))
    R.floor("R-CTX-NAME", 1)


# ---------------------------------------------------------------------------
# R-POPEN-API (C02, C06): what multiprocessing's Process methods expect of the Popen object loky supplies
# ---------------------------------------------------------------------------

def _stdlib_process_delegations():
    """method of multiprocessing.process.BaseProcess -> names it uses on `self._popen` (read from the interpreter's own source)."""
    import importlib.util as iu
    spec = iu.find_spec("multiprocessing.process")
    with open(spec.origin, encoding="utf-8") as fh:
        tree = ast.parse(fh.read())
    out = {}
    for cls in [n for n in tree.body if isinstance(n, ast.ClassDef) and n.name == "BaseProcess"]:
        for m in [n for n in cls.body if isinstance(n, ast.FunctionDef)]:
            used = {x.attr for x in ast.walk(m) if isinstance(x, ast.Attribute) and isinstance(x.value, ast.Attribute) and x.value.attr == "_popen"
                    and isinstance(x.value.value, ast.Name) and x.value.value.id == "self"}
            if used:
                out[m.name] = used
    if not out:
        raise AnalysisError("stdlib: BaseProcess no longer delegates to self._popen")
    return out, spec.origin


def r_popen_api(e, R):
    """loky starts its workers with its own Popen class; the Process object handed to the executor is multiprocessing's
    BaseProcess, whose methods delegate to `self._popen.<name>`.  Every BaseProcess method that loky itself calls on a worker
    process must find that name on loky's Popen -- otherwise the call raises AttributeError on the thread that makes it (the
    executor manager thread for kill / join / terminate)."""
    a = e.anchors
    deleg, origin = _stdlib_process_delegations()
    R.trust(f"stdlib: BaseProcess delegations to self._popen read from {origin}: " + ", ".join(f"{k}->{sorted(v)}" for k, v in sorted(deleg.items())))
    pc = e.prog.cls(f"{PP}:Popen")
    provides = set(pc.methods)
    for m in pc.methods.values():
        if m.params:
            provides |= {x.attr for x in func_nodes(m) if isinstance(x, ast.Attribute) and isinstance(x.ctx, ast.Store) and isinstance(x.value, ast.Name) and x.value.id == m.params[0]}
    provides |= set(pc.attrs)
    seen = {}
    for f, c in e.all_calls():
        if isinstance(c.func, ast.Attribute) and c.func.attr in deleg and e.objs(f, c.func.value) & a.process_objs:
            seen.setdefault(c.func.attr, (f, c))
    # properties read on worker processes (exitcode, sentinel, is_alive via methods above) delegate too
    for nm in sorted(seen):
        f, c = seen[nm]
        missing = sorted(deleg[nm] - provides)
        R.check(not missing, "R-POPEN-API", f"Process.{nm}() (called in {f.short}) finds {sorted(deleg[nm])} on loky's Popen", f.short, f"{norm(c)[:50]} -> _popen.{'/'.join(sorted(deleg[nm]))}",
                f"`{norm(c)[:50]}` in {f.short} calls multiprocessing's Process.{nm}(), which delegates to `self._popen.{missing[0] if missing else ''}`; loky's posix Popen does "
                f"not define it: the call raises AttributeError instead of acting on the worker" + (" (here: the fallback that kills the worker when its process tree "
                "cannot be listed; the error escapes on the executor manager thread, the workers of a forced shutdown / broken pool survive)" if nm == "kill" else ""),
                e.loc(f, c))
    R.check({"join", "kill"} <= set(seen) or {"join", "terminate"} <= set(seen), "R-POPEN-API", "loky joins and kills/terminates its worker processes through the Process API",
            "loky", f"methods used: {sorted(seen)}", "no call of Process.join / kill found on worker processes (anchors lost)", None)
    R.floor("R-POPEN-API", 3)


# ---------------------------------------------------------------------------
# R-INIT-CHAIN (C18): the configured initializer keeps ITS initargs through the chaining helpers
# ---------------------------------------------------------------------------

def _ret_pairs(f):
    return [r for r in func_nodes(f) if isinstance(r, ast.Return)]


def r_init_chain(e, R):
    """`initializer` and `initargs` reach the worker as a pair, but between the constructor and the spawn site they go through
    loky.initializers, which may combine the user's initializer with one of its own (profiler propagation): the pair is split into
    two parallel lists, filtered, and re-assembled, and the compound initializer zips them again in the worker.  "Every worker has
    run the configured initializer WITH ITS initargs" needs every one of these steps to keep position i of one list paired with
    position i of the other.  The steps are enumerated; a step that is present but pairs differently is a violation, a shape the rule
    does not know is declined (ANALYSIS-ERROR)."""
    a = e.anchors
    cls = e.prog.classes[a.executor_cls]
    init = cls.methods.get("__init__")
    if init is None:
        raise AnalysisError("executor has no __init__")
    site = None
    for n in func_nodes(init):
        if isinstance(n, ast.Assign) and isinstance(n.targets[0], ast.Tuple) and len(n.targets[0].elts) == 2 and isinstance(n.value, ast.Call) \
                and all(isinstance(t, ast.Attribute) and isinstance(t.value, ast.Name) and t.value.id == init.params[0] for t in n.targets[0].elts) \
                and any(isinstance(x, ast.Name) and x.id == "initializer" for x in n.value.args):
            site = n
    if site is None:
        raise AnalysisError("constructor: the (initializer, initargs) preparation call was not found")
    fields = [t.attr for t in site.targets[0].elts]
    args = [x.id if isinstance(x, ast.Name) else None for x in site.value.args]
    R.check(args == ["initializer", "initargs"] and not site.value.keywords and "args" in fields[1] and "args" not in fields[0], "R-INIT-CHAIN",
            "constructor: (self.<initializer>, self.<initargs>) = <prepare>(initializer, initargs), in this order", init.short, norm(site)[:80],
            "the constructor hands the initializer and its arguments to the preparation helper (or stores its result) in the wrong order", e.loc(init, site))
    prep = sorted(e.callees_of(site.value))
    if len(prep) != 1:
        raise AnalysisError("constructor: the preparation helper does not resolve to one function")
    pf = e.prog.funcs[prep[0]]
    # --- the preparation helper returns <chain>([(initializer, initargs), <provider>(), ...])
    rets = _ret_pairs(pf)
    if len(rets) != 1 or not isinstance(rets[0].value, ast.Call) or len(rets[0].value.args) != 1 or not isinstance(rets[0].value.args[0], (ast.List, ast.Tuple)):
        raise AnalysisError(f"{pf.short}: does not return <chain>([pairs]); shape not known")
    chain_call = rets[0].value
    pairs = chain_call.args[0].elts
    user = [p for p in pairs if isinstance(p, ast.Tuple)]
    oku = len(user) == 1 and len(user[0].elts) == 2 and [norm(x) for x in user[0].elts] == list(pf.params[:2])
    R.check(oku, "R-INIT-CHAIN", f"{pf.short}: the user's pair enters the chain once, as (initializer, initargs)", pf.short, norm(chain_call.args[0])[:90],
            "the user's initializer does not enter the chain paired with its own initargs", e.loc(pf, chain_call))
    n_prov = 0
    for p in pairs:
        if isinstance(p, ast.Tuple):
            continue
        if not isinstance(p, ast.Call):
            raise AnalysisError(f"{pf.short}: chain element `{norm(p)[:40]}` is neither a pair nor a provider call")
        for q in sorted(e.callees_of(p)):
            g = e.prog.funcs[q]
            for r in _ret_pairs(g):
                v = r.value
                if not (isinstance(v, ast.Tuple) and len(v.elts) == 2):
                    raise AnalysisError(f"{g.short}: provider does not return a pair")
                fn_, ar_ = v.elts
                if isinstance(fn_, ast.Constant) and fn_.value is None:
                    okp = isinstance(ar_, ast.Tuple) and not ar_.elts
                    R.check(okp, "R-INIT-CHAIN", f"{g.short}: 'nothing to add' is (None, ())", g.short, norm(v)[:60], "the provider's empty answer is not (None, ())", e.loc(g, r))
                    continue
                n_prov += 1
                tgt = [e.prog.funcs[c] for c in sorted(e.pt_funcs(g, fn_))] if hasattr(e, "pt_funcs") else \
                    [f_ for q_, f_ in e.prog.funcs.items() if isinstance(fn_, ast.Name) and q_ == f"{g.module.name}:{fn_.id}"]
                okp = isinstance(ar_, ast.Tuple) and all(not isinstance(x, ast.Starred) for x in ar_.elts)
                if okp and tgt:
                    t_ = tgt[0]
                    npos = len(t_.params)
                    ndef = len(t_.node.args.defaults)
                    okp = npos - ndef <= len(ar_.elts) <= npos or t_.vararg is not None
                R.check(okp, "R-INIT-CHAIN", f"{g.short}: returns (<initializer>, <tuple of its positional arguments>) of matching arity", g.short, norm(v)[:70],
                        "the provider's argument part is not a tuple matching its initializer's parameters: the compound initializer calls initializer(*args) "
                        "with the wrong arguments in every worker", e.loc(g, r))
    chn = sorted(e.callees_of(chain_call))
    if len(chn) != 1:
        raise AnalysisError(f"{pf.short}: the chain helper does not resolve to one function")
    cf = e.prog.funcs[chn[0]]
    # --- the chain helper: one loop unpacking (i, a); parallel appends under the same guard; index-consistent returns
    loops = [n for n in func_nodes(cf) if isinstance(n, ast.For) and isinstance(n.iter, ast.Name) and n.iter.id == cf.params[0]
             and isinstance(n.target, ast.Tuple) and len(n.target.elts) == 2 and all(isinstance(x, ast.Name) for x in n.target.elts)]
    if len(loops) != 1:
        raise AnalysisError(f"{cf.short}: the loop unpacking the pairs was not found; shape not known")
    iv, av = (x.id for x in loops[0].target.elts)

    def appends(body):
        out = []
        for s in body:
            if isinstance(s, ast.Expr) and isinstance(s.value, ast.Call) and isinstance(s.value.func, ast.Attribute) and s.value.func.attr == "append" \
                    and isinstance(s.value.func.value, ast.Name) and len(s.value.args) == 1 and isinstance(s.value.args[0], ast.Name):
                out.append((s.value.func.value.id, s.value.args[0].id, s))
        return out
    blocks = []
    for n in ast.walk(loops[0]):
        for fld in ("body", "orelse"):
            b = getattr(n, fld, None)
            if isinstance(b, list) and b and isinstance(b[0], ast.stmt):
                ap = appends(b)
                if ap:
                    blocks.append((n, ap))
    li = {l for _, ap in blocks for l, v, _ in ap if v == iv}
    la = {l for _, ap in blocks for l, v, _ in ap if v == av}
    if len(li) != 1 or len(la) != 1 or li == la:
        raise AnalysisError(f"{cf.short}: the two parallel lists were not found; shape not known")
    LI, LA = li.pop(), la.pop()
    for n, ap in blocks:
        ni = sum(1 for l, v, _ in ap if (l, v) == (LI, iv))
        na = sum(1 for l, v, _ in ap if (l, v) == (LA, av))
        R.check(ni == na, "R-INIT-CHAIN", f"{cf.short}: an initializer and its initargs are kept or dropped together (same block, same guard)", cf.short,
                "; ".join(norm(s)[:40] for _, _, s in ap), "an initializer is kept without its initargs (or the reverse): the two lists shift against each other "
                "and the compound initializer calls each initializer with another one's arguments", e.loc(cf, ap[0][2]))
    for n in ast.walk(loops[0]):
        if isinstance(n, ast.If):
            names = {x.id for x in ast.walk(n.test) if isinstance(x, ast.Name)}
            R.check(av not in names, "R-INIT-CHAIN", f"{cf.short}: the filter looks at the initializer only", cf.short, norm(n.test)[:60],
                    "the filter depends on the initargs: an initializer with empty arguments is dropped or mis-paired", e.loc(cf, n))
    n_ret = 0
    for r in _ret_pairs(cf):
        v = r.value
        if not (isinstance(v, ast.Tuple) and len(v.elts) == 2):
            raise AnalysisError(f"{cf.short}: returns something else than a pair; shape not known")
        x, y = v.elts
        n_ret += 1
        if isinstance(x, ast.Constant) and x.value is None:
            R.check(isinstance(y, ast.Tuple) and not y.elts, "R-INIT-CHAIN", f"{cf.short}: no initializer -> (None, ())", cf.short, norm(v)[:50],
                    "with no initializer configured the initargs are not ()", e.loc(cf, r))
        elif isinstance(x, ast.Subscript) and isinstance(y, ast.Subscript):
            R.check(norm(x.value) == LI and norm(y.value) == LA and norm(x.slice) == norm(y.slice) and not isinstance(x.slice, ast.Slice), "R-INIT-CHAIN",
                    f"{cf.short}: a single initializer is returned with the initargs at the same index", cf.short, norm(v)[:70],
                    "the single remaining initializer is returned with other arguments than its own", e.loc(cf, r))
        elif isinstance(x, ast.Call) and len(x.args) == 1:
            comp = [e.prog.classes[c] for c in e.prog.classes if c.split(":")[-1] == norm(x.func)]
            R.check(norm(x.args[0]) == LI and norm(y) == LA, "R-INIT-CHAIN", f"{cf.short}: several -> (<compound>(initializers), initargs lists), whole and in order", cf.short,
                    norm(v)[:70], "the compound initializer is built from / shipped with a different sequence than the filtered pair of lists", e.loc(cf, r))
            if len(comp) != 1:
                raise AnalysisError(f"{cf.short}: the compound initializer class was not found")
            cc = comp[0]
            ci, call = cc.methods.get("__init__"), cc.methods.get("__call__")
            if ci is None or call is None or not call.vararg:
                raise AnalysisError(f"{cc.short if hasattr(cc, 'short') else 'compound'}: __init__/__call__(*args) not found; shape not known")
            stored = [n.targets[0].attr for n in func_nodes(ci) if isinstance(n, ast.Assign) and isinstance(n.targets[0], ast.Attribute)
                      and isinstance(n.value, ast.Name) and n.value.id == ci.params[1]]
            zl = [n for n in func_nodes(call) if isinstance(n, ast.For) and isinstance(n.iter, ast.Call) and norm(n.iter.func) == "zip"]
            if len(zl) != 1 or len(stored) != 1:
                raise AnalysisError("compound initializer: zip loop / stored list not found; shape not known")
            z = zl[0]
            okz = len(z.iter.args) == 2 and norm(z.iter.args[0]) == f"{call.params[0]}.{stored[0]}" and norm(z.iter.args[1]) == call.vararg \
                and isinstance(z.target, ast.Tuple) and len(z.target.elts) == 2
            R.check(okz, "R-INIT-CHAIN", "compound initializer: zip(self.<initializers>, chained_args) -- position i with position i", call.short, norm(z.iter)[:60],
                    "the compound initializer does not walk its initializers and the shipped argument lists in step", e.loc(call, z))
            if okz:
                fi, ai = (norm(t) for t in z.target.elts)
                cs = [c for c in ast.walk(z) if isinstance(c, ast.Call) and norm(c.func) == fi]
                okc = len(cs) == 1 and len(cs[0].args) == 1 and isinstance(cs[0].args[0], ast.Starred) and norm(cs[0].args[0].value) == ai and not cs[0].keywords \
                    and not any(isinstance(n, (ast.Break, ast.Return, ast.Try, ast.If)) for n in ast.walk(z))
                R.check(okc, "R-INIT-CHAIN", "compound initializer: every initializer is called once with *its args, none skipped, errors not swallowed", call.short,
                        norm(z.body[0])[:60] if z.body else "", "the compound initializer skips an initializer, passes other arguments or hides its failure", e.loc(call, z))
        else:
            raise AnalysisError(f"{cf.short}: return `{norm(v)[:50]}` has a shape this rule does not know")
    if n_ret < 3 or n_prov < 1:
        raise AnalysisError(f"R-INIT-CHAIN floors: {n_ret} returns of the chain helper (3 confirmed), {n_prov} provider answers (1 confirmed)")
