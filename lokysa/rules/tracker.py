"""Resource tracker (C11, C12).

R-RT-TABLE, R-RT-LOOP, R-RT-PROTO, R-TRACKER-SHIP, R-SIG, R-RELAUNCH.
"""
import ast
import importlib.util
import os

from ..model import func_nodes, norm, AnalysisError, static_truth
from ..cfg import calls_in, _walk_noscope
from .. import guards
from .util import (none_test, effect_nodes, calls_method_of, stmt_of, parent, cfg_nodes, inline_locals)

RT = "loky.backend.resource_tracker"
ABSENT = "absent"


class _Raise(Exception):
    pass


class _Continue(Exception):
    pass


class _TableInterp:
    """Abstract interpreter for the per-line dispatch of the tracker loop over
    the state (command literal, rtype known?, refcount of registry[rtype][name])."""

    def __init__(self, e, f, roles):
        self.e, self.f = e, f
        self.cmdv, self.namev, self.rtypev, self.regv, self.cleanup = roles
        self.count = ABSENT
        self.cleaned = []
        self.cmd = None
        self.rtype_known = True
        self.default = None  # value an absent cell reads as (None: KeyError, plain dict)

    # -- expression forms
    def is_cell(self, x):
        return isinstance(x, ast.Subscript) and isinstance(x.value, ast.Subscript) and isinstance(x.value.value, ast.Name) \
            and x.value.value.id == self.regv and isinstance(x.value.slice, ast.Name) and x.value.slice.id == self.rtypev \
            and isinstance(x.slice, ast.Name) and x.slice.id == self.namev

    def is_row(self, x):
        return isinstance(x, ast.Subscript) and isinstance(x.value, ast.Name) and x.value.id == self.regv \
            and isinstance(x.slice, ast.Name) and x.slice.id == self.rtypev

    def ev(self, x):
        if isinstance(x, ast.Constant):
            return x.value
        if isinstance(x, ast.Name):
            if x.id == self.cmdv:
                return self.cmd
            if x.id == "verbose":
                return False
            raise guards.Inconclusive(f"tracker dispatch reads `{x.id}`")
        if self.is_cell(x):
            if self.count == ABSENT:
                if self.default is None:
                    raise _Raise("KeyError")
                self.count = self.default  # defaultdict-like rows materialise the entry on read
            return self.count
        if isinstance(x, ast.UnaryOp) and isinstance(x.op, ast.Not):
            return not self.ev(x.operand)
        if isinstance(x, ast.BoolOp):
            vals = [self.ev(v) for v in x.values]
            return all(vals) if isinstance(x.op, ast.And) else any(vals)
        if isinstance(x, ast.Compare) and len(x.ops) == 1:
            op, r = x.ops[0], x.comparators[0]
            if isinstance(op, (ast.In, ast.NotIn)):
                if isinstance(x.left, ast.Name) and x.left.id == self.namev and self.is_row(r):
                    v = self.count != ABSENT
                elif isinstance(x.left, ast.Name) and x.left.id == self.rtypev and isinstance(r, ast.Name) and r.id == self.cleanup:
                    v = self.rtype_known
                else:
                    raise guards.Inconclusive(f"membership test {norm(x)}")
                return v if isinstance(op, ast.In) else not v
            return guards._cmp(op, self.ev(x.left), self.ev(r))
        if isinstance(x, ast.Call) and isinstance(x.func, ast.Attribute) and x.func.attr == "get" and self.is_row(x.func.value) \
                and 1 <= len(x.args) <= 2 and not x.keywords and isinstance(x.args[0], ast.Name) and x.args[0].id == self.namev:
            # row.get(name[, d]) reads the cell without materialising it
            if self.count != ABSENT:
                return self.count
            return self.ev(x.args[1]) if len(x.args) == 2 else None
        if isinstance(x, ast.BinOp) and isinstance(x.op, (ast.Add, ast.Sub)):
            l, r = self.ev(x.left), self.ev(x.right)
            if not (isinstance(l, int) and isinstance(r, int)):
                raise guards.Inconclusive(f"non-integer refcount arithmetic {norm(x)}")
            return l + r if isinstance(x.op, ast.Add) else l - r
        raise guards.Inconclusive(f"tracker dispatch expression {norm(x)}")

    def mutates(self, stmts):
        for s in stmts:
            for x in ast.walk(s):
                if self.is_cell(x) and isinstance(x.ctx, (ast.Store, ast.Del)):
                    return True
                if isinstance(x, ast.Call) and self.is_cleanup_call(x):
                    return True
        return False

    def is_cleanup_call(self, c):
        return isinstance(c.func, ast.Subscript) and isinstance(c.func.value, ast.Name) and c.func.value.id == self.cleanup

    def run(self, stmts):
        for s in stmts:
            self.stmt(s)

    def stmt(self, s):
        if isinstance(s, ast.If):
            if isinstance(s.test, ast.Name) and s.test.id == "verbose":
                if self.mutates(s.body) or self.mutates(s.orelse):
                    raise guards.Inconclusive("state change under `if verbose`")
                return
            self.run(s.body if self.ev(s.test) else s.orelse)
            return
        if isinstance(s, ast.Assign):
            t = s.targets[0]
            if self.is_cell(t):
                v = self.ev(s.value)
                if not isinstance(v, int):
                    raise guards.Inconclusive("non-integer refcount")
                self.count = v
                return
            if any(self.is_cell(x) or self.is_row(x) for x in ast.walk(t)):
                raise guards.Inconclusive(f"unrecognised registry write {norm(s)}")
            return
        if isinstance(s, ast.AugAssign):
            if self.is_cell(s.target):
                if self.count == ABSENT:
                    if self.default is None:
                        raise _Raise("KeyError")
                    self.count = self.default
                c = self.ev(s.value)
                if isinstance(s.op, ast.Add):
                    self.count += c
                elif isinstance(s.op, ast.Sub):
                    self.count -= c
                else:
                    raise guards.Inconclusive("refcount operator")
                return
            return
        if isinstance(s, ast.Delete):
            for t in s.targets:
                if self.is_cell(t):
                    if self.count == ABSENT:
                        raise _Raise("KeyError")
                    self.count = ABSENT
                elif any(self.is_row(x) for x in ast.walk(t)):
                    raise guards.Inconclusive(f"unrecognised registry delete {norm(s)}")
            return
        if isinstance(s, ast.Expr):
            for c in [x for x in ast.walk(s) if isinstance(x, ast.Call)]:
                if self.is_cleanup_call(c):
                    key = c.func.slice
                    okk = isinstance(key, ast.Name) and key.id == self.rtypev
                    oka = len(c.args) == 1 and isinstance(c.args[0], ast.Name) and c.args[0].id == self.namev
                    self.cleaned.append("ok" if (okk and oka) else f"bad:{norm(c)}")
            return
        if isinstance(s, ast.Try):
            self.run(s.body)
            self.run(s.orelse)
            self.run(s.finalbody)
            return
        if isinstance(s, ast.Raise):
            raise _Raise(norm(s.exc)[:30] if s.exc else "raise")
        if isinstance(s, ast.Continue):
            raise _Continue()
        if isinstance(s, ast.Pass):
            return
        raise guards.Inconclusive(f"tracker dispatch statement {type(s).__name__}")


class SharedRows(Exception):
    """The registry is built so that every resource type shares one row object."""


def registry_row_default(e, f, regv):
    """How the per-type rows of the registry are built: None for plain dicts
    (reading an absent name raises KeyError), an int for defaultdict(int)-like
    rows (absent names read as that value and are materialised)."""
    defs = e.local_defs(f, regv)
    if len(defs) != 1:
        raise AnalysisError("tracker: the registry is not built by a single expression")
    d = defs[0]
    rows = []
    if isinstance(d, ast.Call) and norm(d.func).endswith("dict.fromkeys") or (isinstance(d, ast.Call) and isinstance(d.func, ast.Attribute) and d.func.attr == "fromkeys"):
        # dict.fromkeys(keys, value) stores the SAME value object under every key
        raise SharedRows(norm(d)[:70])
    if isinstance(d, ast.DictComp) and isinstance(d.value, ast.Name) and d.value.id not in {t.id for g_ in d.generators for t in ast.walk(g_.target) if isinstance(t, ast.Name)}:
        raise SharedRows(norm(d)[:70])
    if isinstance(d, ast.DictComp):
        rows = [d.value]
    elif isinstance(d, ast.Dict):
        rows = list(d.values)
    else:
        raise guards.Inconclusive(f"tracker registry built by {norm(d)[:50]}")
    out = set()
    for r in rows:
        if isinstance(r, ast.Dict) and not r.keys or (isinstance(r, ast.Call) and norm(r) == "dict()"):
            out.add(None)
        elif isinstance(r, ast.Call) and norm(r.func).split(".")[-1] == "defaultdict" and len(r.args) == 1 and norm(r.args[0]) == "int":
            out.add(0)
        elif isinstance(r, ast.Call) and norm(r.func).split(".")[-1] == "Counter" and not r.args:
            out.add(0)
        else:
            raise guards.Inconclusive(f"tracker registry row type {norm(r)[:40]}")
    if len(out) != 1:
        raise guards.Inconclusive("tracker registry rows of mixed types")
    return out.pop()


def tracker_main(e):
    return e.prog.func(f"{RT}:main")


def _loop_parts(e):
    """(func, while node, dispatch try node, parse statements, roles) -- independent of how the line is parsed.
    roles = (command var, name var, type var, registry var, cleanup table var)."""
    f = tracker_main(e)
    loop = None
    for n in func_nodes(f):
        if isinstance(n, ast.While) and any(isinstance(x, ast.Call) and isinstance(x.func, ast.Attribute) and x.func.attr == "readline"
                                            for x in _walk_noscope(n)):
            loop = n
    if loop is None:
        raise AnalysisError("tracker: read loop not found")
    def tries(stmts):
        for s in stmts:
            if isinstance(s, ast.Try):
                yield s
            elif isinstance(s, ast.If):      # a guard clause written the other way round nests the rest of the body
                yield from tries(s.body)
                yield from tries(s.orelse)
    tr = list(tries(loop.body))
    if len(tr) != 1:
        raise AnalysisError("tracker: the per-line try block not found")
    tr = tr[0]
    # registry[<type var>][<name var>] and <cleanup table>[<type var>](<name var>)
    regv = namev = rtypev = cleanup = None
    for x in ast.walk(tr):
        if isinstance(x, ast.Subscript) and isinstance(x.value, ast.Subscript) and isinstance(x.value.value, ast.Name) \
                and isinstance(x.slice, ast.Name) and isinstance(x.value.slice, ast.Name):
            regv, rtypev, namev = x.value.value.id, x.value.slice.id, x.slice.id
    for x in ast.walk(tr):
        if isinstance(x, ast.Call) and isinstance(x.func, ast.Subscript) and isinstance(x.func.value, ast.Name) \
                and isinstance(x.func.slice, ast.Name) and x.func.slice.id == rtypev:
            cleanup = x.func.value.id
    if not (regv and cleanup):
        raise AnalysisError("tracker: registry / cleanup table not recognised")
    # the command variable: the name compared with the command literals
    cmds = [x.left.id for x in ast.walk(tr) if isinstance(x, ast.Compare) and isinstance(x.left, ast.Name) and isinstance(x.ops[0], ast.Eq)
            and isinstance(x.comparators[0], ast.Constant) and x.comparators[0].value in ("REGISTER", "UNREGISTER", "MAYBE_UNLINK", "PROBE")]
    if not cmds or len(set(cmds)) != 1:
        raise AnalysisError("tracker: command variable not recognised")
    cmdv = cmds[0]
    # the parse block: the leading assignments of the try body (everything before the first statement that is not an assignment)
    parse = []
    for st in tr.body:
        if isinstance(st, ast.Assign):
            parse.append(st)
        else:
            break
    if not parse:
        raise AnalysisError("tracker: parse of the request line not recognised")
    return f, loop, tr, parse, (cmdv, namev, rtypev, regv, cleanup)


class _ParseEval:
    """Evaluates the parse block of the tracker (pure string operations: strip/decode/split/rsplit/partition/rpartition/join,
    constant subscripts and slices, tuple assignment) on a sample request line.  This is constant folding of builtin string
    methods over a literal, not an execution of loky; any other construct raises AnalysisError."""
    METHODS = {"strip", "rstrip", "lstrip", "decode", "split", "rsplit", "partition", "rpartition", "join", "splitlines"}

    def __init__(self, env):
        self.env = dict(env)

    def ev(self, x):
        if isinstance(x, ast.Constant):
            return x.value
        if isinstance(x, ast.Name):
            if x.id not in self.env:
                raise AnalysisError(f"tracker parse: `{x.id}` is not defined by the parse block")
            return self.env[x.id]
        if isinstance(x, ast.Tuple):
            return tuple(self.ev(v) for v in x.elts)
        if isinstance(x, ast.List):
            return [self.ev(v) for v in x.elts]
        if isinstance(x, ast.UnaryOp) and isinstance(x.op, ast.USub):
            return -self.ev(x.operand)
        if isinstance(x, ast.Subscript):
            v = self.ev(x.value)
            sl = x.slice
            if isinstance(sl, ast.Slice):
                lo = self.ev(sl.lower) if sl.lower is not None else None
                hi = self.ev(sl.upper) if sl.upper is not None else None
                if sl.step is not None:
                    raise AnalysisError("tracker parse: stepped slice")
                return v[lo:hi]
            return v[self.ev(sl)]
        if isinstance(x, ast.Call) and isinstance(x.func, ast.Attribute) and x.func.attr == "readline" and "\0raw" in self.env:
            return self.env["\0raw"]
        if isinstance(x, ast.Call) and isinstance(x.func, ast.Attribute) and x.func.attr in self.METHODS and not x.keywords:
            recv = self.ev(x.func.value)
            args = [self.ev(a) for a in x.args]
            if not isinstance(recv, (str, bytes)):
                raise AnalysisError("tracker parse: method on a non-string")
            return getattr(recv, x.func.attr)(*args)
        raise AnalysisError(f"tracker parse: `{norm(x)[:50]}` is not a pure string operation this rule can fold")

    def run(self, stmts):
        for st in stmts:
            v = self.ev(st.value)
            for t in st.targets:
                if isinstance(t, ast.Name):
                    self.env[t.id] = v
                elif isinstance(t, ast.Tuple) and all(isinstance(el, ast.Name) for el in t.elts):
                    vs = list(v)
                    if len(vs) != len(t.elts):
                        raise AnalysisError("tracker parse: unpacking arity")
                    for el, vv in zip(t.elts, vs):
                        self.env[el.id] = vv
                else:
                    raise AnalysisError("tracker parse: unsupported assignment target")
        return self.env


def dispatched_literals(e):
    f, loop, tr, _, roles = _loop_parts(e)
    lits = set()
    for x in ast.walk(tr):
        if isinstance(x, ast.Compare) and isinstance(x.left, ast.Name) and x.left.id == roles[0] and isinstance(x.ops[0], ast.Eq) \
                and isinstance(x.comparators[0], ast.Constant):
            lits.add(x.comparators[0].value)
    return lits


def r_rt_table(e, R):
    f, loop, tr, parse, roles = _loop_parts(e)
    lits = sorted(dispatched_literals(e))
    R.info["tracker_commands"] = lits
    spec_cmds = {"REGISTER", "UNREGISTER", "MAYBE_UNLINK", "PROBE"}
    R.check(spec_cmds <= set(lits), "R-RT-TABLE", f"tracker dispatches {sorted(spec_cmds)}", f.short, f"commands {lits}",
            f"the tracker loop no longer dispatches {sorted(spec_cmds - set(lits))}", e.loc(f, tr))
    body = [s for s in tr.body if not any(s is ps for ps in parse)]
    rows = 0

    try:
        default = registry_row_default(e, f, roles[3])
    except SharedRows as ex:
        R.fail("R-RT-TABLE", f.short, str(ex), "the registry gives every resource type the SAME row object (dict.fromkeys with a mutable value / a row built outside "
               "the comprehension): counts are no longer kept per (type, name); a request of one type changes the count of a same-named resource of another "
               "type, which is then destroyed early or never", e.loc(f, f.node))
        return
    R.info["tracker_registry_rows"] = "plain dict (absent -> KeyError)" if default is None else f"defaulting rows (absent reads as {default})"

    def run(cmd, known, count):
        it = _TableInterp(e, f, roles)
        it.default = default
        it.cmd, it.rtype_known, it.count = cmd, known, count
        try:
            it.run(body)
            out = "next"
        except _Raise as ex:
            out = "raise"
        except _Continue:
            out = "next"
        return out, it.count, it.cleaned

    def expect(cmd, known, count):
        """(outcome, final count, cleanups)"""
        if cmd == "PROBE":
            return ("next", count, [])
        if not known:
            return ("raise", count, [])
        if cmd == "REGISTER":
            return ("next", 1 if count == ABSENT else count + 1, [])
        if cmd == "UNREGISTER":
            return ("raise", ABSENT, []) if count == ABSENT else ("next", ABSENT, [])
        if cmd == "MAYBE_UNLINK":
            if count == ABSENT:
                return ("raise", ABSENT, [])
            if count - 1 == 0:
                return ("next", ABSENT, ["ok"])
            return ("next", count - 1, [])
        return ("raise", count, [])
    try:
        for cmd in lits + ["<unknown>"]:
            for known in (True, False):
                for count in (ABSENT, 1, 2, 3):
                    got = run(cmd, known, count)
                    want = expect(cmd, known, count)
                    rows += 1
                    ok = got == want
                    if not ok and cmd in ("UNREGISTER", "MAYBE_UNLINK") and count == ABSENT and got[1] == ABSENT and not got[2]:
                        ok = True  # tolerating a request on a never-registered name (no raise) is also fine
                    R.check(ok, "R-RT-TABLE", f"{cmd} / rtype {'known' if known else 'unknown'} / count {count}: {got}", f.short,
                            f"{cmd} with count {count}{'' if known else ' (unknown rtype)'}",
                            f"tracker transition for {cmd} with refcount {count}{'' if known else ' and an unknown resource type'} is "
                            f"(outcome, count, cleanup) = {got}, the refcounting contract requires {want}", e.loc(f, tr))
    except guards.Inconclusive as ex:
        raise AnalysisError(f"R-RT-TABLE inconclusive: {ex}")
    R.info["tracker_table_rows"] = rows
    # cleanup failures are caught and warned, not propagated
    for c in [x for x in ast.walk(tr) if isinstance(x, ast.Call) and isinstance(x.func, ast.Subscript) and isinstance(x.func.value, ast.Name)
              and x.func.value.id == roles[4]]:
        p = parent(e, c)
        t = p
        while t is not None and not isinstance(t, ast.Try):
            t = parent(e, t)
            if t is tr:
                t = None
                break
        ok = t is not None and any(h.type is None or norm(h.type) in ("Exception", "BaseException") for h in t.handlers) and \
            not any(isinstance(x, ast.Raise) for h in t.handlers for x in ast.walk(h))
        # "already dropped": the entry is deleted before the cleanup function runs -- a cleanup that raises must not leave a zero-count
        # entry behind (a later stray MAYBE_UNLINK would go to -1 unreported, the end-of-life sweep would destroy the name again)
        g_ = e.cfg(f)
        cn_ = [n for n in g_.nodes if n.kind == "stmt" and any(x is c for x in calls_in(n))]
        dels = [n for n in g_.nodes if n.kind == "stmt" and isinstance(n.ast, ast.Delete) and any(
            isinstance(tg, ast.Subscript) and isinstance(tg.value, ast.Subscript) and isinstance(tg.value.value, ast.Name) and tg.value.value.id == roles[3]
            for tg in n.ast.targets)]
        if cn_ and _inside(e, c, tr):
            in_dispatch = any(isinstance(p_, ast.If) for p_ in _ancestors_until(e, c, tr))
            if in_dispatch:
                R.check(any(g_.dominates(d, cn_[0]) for d in dels), "R-RT-TABLE", "the entry is deleted before its cleanup function is called", f.short,
                        f"del {roles[3]}[..][..] before {norm(c)[:40]}",
                        "the registry entry is deleted only after the cleanup function returned: when the cleanup raises (the resource was removed by somebody else, "
                        "a permission error) the entry stays with count 0, a later MAYBE_UNLINK goes to -1 without being reported and the end-of-life sweep destroys the "
                        "name a second time", e.loc(f, c))
        R.check(ok, "R-RT-TABLE", "a failing cleanup is caught and reported, the count is already dropped", f.short, norm(c),
                "a failing cleanup function propagates (or is silently lost): the request barrier reports it as a malformed request", e.loc(f, c))
    R.floor("R-RT-TABLE", 30)


def r_rt_loop(e, R):
    f, loop, tr, _, roles = _loop_parts(e)
    g = e.cfg(f)
    hs = [h for h in tr.handlers if h.type is None or norm(h.type) == "BaseException"]
    R.check(bool(hs), "R-RT-LOOP", "the per-request barrier catches BaseException", f.short, "except BaseException",
            f"the request barrier only catches {[norm(h.type) for h in tr.handlers]}: a malformed request (or SystemExit from a cleanup) "
            "stops the tracker and every tracked resource leaks", e.loc(f, tr))
    R.check(isinstance(loop.test, ast.Constant) and loop.test.value is True, "R-RT-LOOP", "the read loop has no exit condition of its own", f.short,
            f"while {norm(loop.test)}", "the tracker loop can end before EOF", e.loc(f, loop))
    # exits of the loop: only the EOF break
    heads = [n for n in g.nodes if n.kind == "join" and n.tag == "loop-head" and n.ast is loop]
    brk = [n for n in g.nodes if n.kind == "stmt" and isinstance(n.ast, ast.Break) and _inside(e, n.ast, loop)]
    okb = len(brk) == 1
    if okb:
        b = brk[0]
        tests = [t for t in g.nodes if t.kind == "test" and g.on_branch(b, t, "T") and _inside(e, t.ast, loop)]
        okb = any(isinstance(t.ast, ast.Compare) and isinstance(t.ast.comparators[0], ast.Constant) and t.ast.comparators[0].value == b""
                  and isinstance(t.ast.ops[0], ast.Eq) for t in tests) and not _inside(e, b.ast, tr)
    R.check(okb, "R-RT-LOOP", "the only exit of the loop is EOF of the request pipe", f.short, "if line == b'': break",
            "the tracker can stop before every process of the tree has closed the pipe", e.loc(f, loop))
    # ... and what is compared with b"" is the untouched result of readline(): only a read at EOF returns b""; a stripped / sliced
    # line is also empty for a blank request line ("\n", " \n", a name containing an empty line), which is malformed input, not EOF
    if okb:
        for t_ in tests:
            if isinstance(t_.ast, ast.Compare) and isinstance(t_.ast.comparators[0], ast.Constant) and t_.ast.comparators[0].value == b"":
                subj = t_.ast.left
                srcs = [subj] if not isinstance(subj, ast.Name) else e.reaching_defs(f, subj.id, t_)
                raw = bool(srcs) and all(isinstance(d, ast.Call) and isinstance(d.func, ast.Attribute) and d.func.attr == "readline" for d in srcs)
                R.check(raw, "R-RT-LOOP", "the EOF test looks at the unmodified result of readline()", f.short, f"{norm(subj)} = " + " | ".join(norm(d) if d is not None else "<unset>" for d in srcs),
                        "the end-of-file test is applied to a transformed line: a blank or whitespace-only request line is taken for EOF, the tracker leaves its "
                        "loop and destroys every resource that is still counted while the processes of the tree are alive", e.loc(f, t_.ast))
    # handler cannot leave the loop
    for h in hs:
        hn = g.nodes_of(h)
        for n in hn:
            esc = g.find_path(n, lambda x: x is g.exit or x is g.raise_exit or (x.kind == "join" and x.tag == "loop-exit"),
                              avoid=heads, use_exc=True)
            R.check(esc is None, "R-RT-LOOP", "the barrier's handler always returns to reading the next request", f.short, "handler",
                    "the handler of a bad request can leave the loop (break / raise): the tracker stops", e.loc(f, h),
                    g.fmt_path(esc) if esc else None)
    rets = [n for n in func_nodes(f) if isinstance(n, (ast.Return,)) and _inside(e, n, loop)]
    R.check(not rets, "R-RT-LOOP", "no return inside the loop", f.short, "return", "the tracker returns from inside the loop", e.loc(f, loop))
    # the sweep is in `finally` and handles folders last
    outer = None
    p = parent(e, loop)
    while p is not None and not isinstance(p, ast.FunctionDef):
        if isinstance(p, ast.Try) and p.finalbody:
            outer = p
        p = parent(e, p)
    R.check(outer is not None, "R-RT-LOOP", "the end-of-life sweep is in a finally clause", f.short, "finally", "no sweep at tracker end-of-life",
            e.loc(f, loop))
    if outer is not None:
        fin = outer.finalbody
        calls = [c for s in fin for c in ast.walk(s) if isinstance(c, ast.Call) and isinstance(c.func, ast.Name)]
        helpers = _sweep_helpers(e, fin, roles[4])
        sweeps = [c for c in calls if c.func.id in helpers]
        loop_sw = [c for c in sweeps if any(isinstance(pp, ast.For) for pp in _parents(e, c, outer))]
        last_sw = [c for c in sweeps if c not in loop_sw]
        okf = False
        for c in last_sw:
            if len(c.args) >= 2 and isinstance(c.args[1], ast.Constant) and c.args[1].value == "folder":
                okf = True
        oks = False
        for c in loop_sw:
            fl = [pp for pp in _parents(e, c, outer) if isinstance(pp, ast.For)][0]
            skip = any(isinstance(x, ast.If) and any(isinstance(k, ast.Constant) and k.value == "folder" for k in ast.walk(x.test))
                       and any(isinstance(y, ast.Continue) for y in ast.walk(x)) for x in fl.body)
            it = fl.iter
            allt = isinstance(it, ast.Call) and isinstance(it.func, ast.Attribute) and it.func.attr == "items" and isinstance(it.func.value, ast.Name) \
                and it.func.value.id == roles[3]
            oks = allt  # which types reach the helper (with polarity) is decided by R-RT-SWEEP over the cleanup table's keys
            # folders after: the folder sweep statement comes after the loop statement in the finally body
            idx_loop = [i for i, s in enumerate(fin) if fl is s or any(x is fl for x in ast.walk(s))]
            idx_fold = [i for i, s in enumerate(fin) if any(x is c2 for c2 in last_sw for x in ast.walk(s))]
            R.check(bool(idx_loop) and bool(idx_fold) and max(idx_loop) < min(idx_fold), "R-RT-LOOP", "folders are swept after every other resource type",
                    f.short, "folder sweep last", "folders are deleted before the files/semaphores they may contain", e.loc(f, fl))
        R.check(oks and okf, "R-RT-LOOP", "the sweep visits every type of the registry, non-folders in the loop, folders afterwards", f.short,
                "for rtype, reg in registry.items(): ...; folders last", "the end-of-life sweep does not cover every resource type exactly once",
                e.loc(f, outer))
        for nm, hf in helpers.items():
            fors = [x for x in ast.walk(hf) if isinstance(x, ast.For)]
            okc = False
            for fo in fors:
                for c in ast.walk(fo):
                    if isinstance(c, ast.Call) and isinstance(c.func, ast.Subscript) and isinstance(c.func.value, ast.Name) and c.func.value.id == roles[4] \
                            and len(c.args) == 1 and isinstance(c.args[0], ast.Name) and isinstance(fo.target, ast.Name) and c.args[0].id == fo.target.id \
                            and isinstance(fo.iter, ast.Name) and fo.iter.id == hf.args.args[0].arg \
                            and isinstance(c.func.slice, ast.Name) and c.func.slice.id == hf.args.args[1].arg:
                        tr2 = [pp for pp in _parents(e, c, hf) if isinstance(pp, ast.Try)]
                        okc = bool(tr2) and _inside(e, tr2[0], fo)
            R.check(okc, "R-RT-LOOP", f"{nm}: calls the type's cleanup for every remaining name, each in its own try", f.short, nm,
                    "the sweep does not clean every remaining name (or one failure aborts the rest)", e.loc(f, hf))
    # the command pipe is whatever descriptor number was free in the launching process (0 when it runs with stdin closed):
    # the tracker must not close or overwrite descriptors *by number* before (or while) it reads from the one it was given
    fdp = f.params[0]
    lit_targets = {}
    for n in func_nodes(f):
        if isinstance(n, ast.For) and isinstance(n.target, ast.Name) and isinstance(n.iter, (ast.Tuple, ast.List)) and n.iter.elts \
                and all(isinstance(x, ast.Constant) and isinstance(x.value, int) for x in n.iter.elts):
            lit_targets[n.target.id] = [x.value for x in n.iter.elts]
        if isinstance(n, ast.For) and isinstance(n.target, ast.Name) and isinstance(n.iter, ast.Call) and norm(n.iter.func) == "range":
            lit_targets[n.target.id] = "range"
    for c in [x for x in func_nodes(f) if isinstance(x, ast.Call)]:
        fn = norm(c.func)
        tgt_arg = None
        if fn == "os.dup2" and len(c.args) >= 2:
            tgt_arg = c.args[1]
        elif fn == "os.close" and c.args:
            tgt_arg = c.args[0]
        elif fn == "os.closerange":
            tgt_arg = c.args[0] if c.args else None
        if tgt_arg is None:
            continue
        by_number = (isinstance(tgt_arg, ast.Constant) and isinstance(tgt_arg.value, int)) or (isinstance(tgt_arg, ast.Name) and tgt_arg.id in lit_targets) \
            or (isinstance(tgt_arg, ast.Call) and norm(tgt_arg.func).endswith(".fileno")) or fn == "os.closerange"
        R.check(not by_number, "R-RT-LOOP", f"tracker main: `{fn}` does not act on a descriptor chosen by number", f.short, norm(c)[:60],
                f"the tracker closes / overwrites descriptor {norm(tgt_arg)} by number: its command pipe `{fdp}` is simply the lowest descriptor that was free in the "
                "process that launched it (0 or 1 when that process runs with stdin/stdout closed), so the tracker reads EOF at once, sweeps everything and exits "
                "while its tree is alive; every later request relaunches another short-lived tracker", e.loc(f, c))
    # request names are plain strings that the tracker itself hands to os.unlink / shutil.rmtree / sem_unlink: a relative name means
    # "relative to the directory the tree was started in", which is the tracker's working directory as long as it never changes it
    moved = [(fn_, c) for q in sorted(e.reach([f.qualname])) if q in e.prog.funcs for fn_ in [e.prog.funcs[q]] if fn_.module.name.startswith("loky")
             for c in func_nodes(fn_) if isinstance(c, ast.Call) and norm(c.func) in ("os.chdir", "os.fchdir", "os.chroot")]
    R.check(not moved, "R-RT-LOOP", "the tracker process never changes its working directory (relative resource names keep their meaning)", f.short,
            "no os.chdir / os.fchdir / os.chroot reachable from main", (f"`{norm(moved[0][1])[:50]}` in {moved[0][0].short}: the tracker resolves the names it is sent "
            "itself; after changing directory a file / folder registered under a relative path is looked up elsewhere: it is not destroyed when its count "
            "reaches zero nor at end of life (and a same-named entry under the new directory is destroyed instead)") if moved else "",
            e.loc(moved[0][0], moved[0][1]) if moved else None)
    R.floor("R-RT-LOOP", 9)


BROAD = {None, "Exception", "BaseException"}
# calls that cannot raise on the values the sweep applies them to (a dict of dicts built by main itself)
SWEEP_TOTAL_CALLS = {"len", "items", "keys", "values", "list", "sorted", "tuple", "get", "copy"}   # total on builtin dicts / lists (str keys)


def _sweep_helpers(e, fin, cleanup):
    """The routines the sweep delegates to: functions defined in the finally body itself, or module-level functions of the tracker
    module called from it, that hand names to `<cleanup table>[type](name)`."""
    helpers = {s.name: s for s in fin if isinstance(s, ast.FunctionDef)}
    for s in fin:
        for c in ast.walk(s):
            if isinstance(c, ast.Call) and isinstance(c.func, ast.Name) and c.func.id not in helpers:
                mf = e.prog.funcs.get(f"{RT}:{c.func.id}")
                if mf is not None and mf.kind == "def" and any(isinstance(x, ast.Call) and isinstance(x.func, ast.Subscript) and isinstance(x.func.value, ast.Name)
                                                               and x.func.value.id == cleanup for x in ast.walk(mf.node)):
                    helpers[c.func.id] = mf.node
    return helpers


def _sweep_region(e):
    """(func, outer try, finally statements, helper defs) of the tracker's end-of-life sweep."""
    f, loop, tr, _, roles = _loop_parts(e)
    outer = None
    p = parent(e, loop)
    while p is not None and not isinstance(p, ast.FunctionDef):
        if isinstance(p, ast.Try) and p.finalbody:
            outer = p
        p = parent(e, p)
    if outer is None:
        return f, None, [], {}, roles
    helpers = _sweep_helpers(e, outer.finalbody, roles[4])
    return f, outer, outer.finalbody, helpers, roles


def _broadly_protected(e, call, stop):
    """The innermost enclosing position of `call` (below `stop`) where an exception it raises is caught by a broad handler:
    the call must sit in the *body* of a Try with a bare / Exception / BaseException handler.  A call inside a handler,
    an else or a finally clause of a Try is not protected by that Try."""
    child = call
    p = e.prog.parent.get(id(call))
    while p is not None and p is not stop:
        if isinstance(p, ast.Try):
            in_body = any(child is s for s in p.body)
            if in_body and any((h.type is None) or (norm(h.type) in BROAD) for h in p.handlers):
                return True
        child = p
        p = e.prog.parent.get(id(p))
    return False


def r_rt_sweep(e, R):
    """R-RT-SWEEP: the end-of-life sweep is total.  No exception raised inside the sweep -- by a cleanup function, by a
    warning turned into an error (the tracker inherits -W error / PYTHONWARNINGS from its parent) or by a write to a closed
    stderr -- can leave the sweep before every remaining name of every type was handed to its cleanup function: every call
    of the sweep region that may raise sits in the body of a try with a broad handler."""
    f, outer, fin, helpers, roles = _sweep_region(e)
    if outer is None:
        raise AnalysisError("tracker: end-of-life sweep (finally) not found")
    n = 0
    for region_name, stmts, stop in [("finally", [s for s in fin if not isinstance(s, ast.FunctionDef)], outer)] + \
            [(nm, hf.body, hf) for nm, hf in helpers.items()]:
        for s in stmts:
            for c in _walk_noscope(s) if not isinstance(s, ast.FunctionDef) else ():
                if not isinstance(c, ast.Call):
                    continue
                fn = c.func
                nm = fn.id if isinstance(fn, ast.Name) else fn.attr if isinstance(fn, ast.Attribute) else None
                if isinstance(fn, ast.Name) and fn.id in helpers:
                    continue  # total by this rule applied to the helper itself
                if nm in SWEEP_TOTAL_CALLS:
                    continue
                n += 1
                ok = _broadly_protected(e, c, stop)
                R.check(ok, "R-RT-SWEEP", f"sweep ({region_name}): `{norm(fn)}(...)` cannot abort the sweep", f.short, norm(c)[:90],
                        f"an exception raised by `{norm(fn)}(...)` (e.g. a warning turned into an error under -W error, which the tracker "
                        "inherits from its parent, or a failing cleanup function) is not caught by a broad handler and leaves the "
                        "end-of-life sweep: every resource not yet visited leaks", e.loc(f, c))
    if n == 0:
        raise AnalysisError("tracker: no call found in the end-of-life sweep")
    # coverage with polarity: which resource types reach a helper call?  The finally body is interpreted over the keys of
    # the cleanup table: in the loop the helper must run exactly for the non-folder types, afterwards exactly for 'folder'.
    keys = cleanup_keys(e)
    g = e.cfg(f)
    regv = roles[3]

    def ev(x, env):
        if isinstance(x, ast.Constant):
            return x.value
        if isinstance(x, ast.Name) and x.id in env:
            return env[x.id]
        if isinstance(x, ast.Name) and len(e.local_defs(f, x.id)) == 1:
            return ev(e.local_defs(f, x.id)[0], env)            # a local bound once (e.g. the row fetched with .get)
        if isinstance(x, ast.Call) and isinstance(x.func, ast.Attribute) and x.func.attr == "get" and isinstance(x.func.value, ast.Name) and x.func.value.id == regv \
                and x.args and isinstance(x.args[0], ast.Constant):
            return ("row", x.args[0].value) if x.args[0].value in env.get(regv, ()) else None
        if isinstance(x, (ast.Tuple, ast.List, ast.Set)):
            return [ev(v, env) for v in x.elts]
        if isinstance(x, ast.UnaryOp) and isinstance(x.op, ast.Not):
            return not ev(x.operand, env)
        if isinstance(x, ast.BoolOp):
            vs = [ev(v, env) for v in x.values]
            return all(vs) if isinstance(x.op, ast.And) else any(vs)
        if isinstance(x, ast.Compare) and len(x.ops) == 1:
            l, r, op = ev(x.left, env), ev(x.comparators[0], env), x.ops[0]
            if isinstance(op, ast.Eq):
                return l == r
            if isinstance(op, ast.NotEq):
                return l != r
            if isinstance(op, ast.In):
                return l in r
            if isinstance(op, ast.NotIn):
                return l not in r
            if isinstance(op, ast.Is):
                return l is r
            if isinstance(op, ast.IsNot):
                return l is not r
        raise AnalysisError(f"tracker sweep: condition `{norm(x)}` not interpretable over the resource types")

    helper_calls = [(nd, c) for nd in g.nodes for c in calls_in(nd) if isinstance(c.func, ast.Name) and c.func.id in helpers
                    and any(_inside(e, c, s_) for s_ in fin)]
    swept = {}
    seen_calls = {}
    for nd, c in helper_calls:
        # the finally body is duplicated per continuation in the CFG: every copy must agree, report each call once
        if id(c) in seen_calls:
            continue
        seen_calls[id(c)] = nd
        fors = [pp for pp in _parents(e, c, outer) if isinstance(pp, ast.For)]
        ctl = [(t, lab) for t in g.nodes if t.kind == "test" and any(_inside(e, t.ast, s_) for s_ in fin) for lab in ("T", "F") if g.on_branch(nd, t, lab)]
        if fors:
            fo = fors[0]
            tv = fo.target.elts[0].id if isinstance(fo.target, ast.Tuple) and isinstance(fo.target.elts[0], ast.Name) else None
            if tv is None or not (isinstance(c.args[1], ast.Name) and c.args[1].id == tv):
                raise AnalysisError("tracker sweep: loop variable of the sweep not recognised")
            for k in sorted(keys):
                env = {tv: k, regv: keys}
                if all(bool(ev(t.ast, env)) == (lab == "T") for t, lab in ctl):
                    swept.setdefault(k, []).append("loop")
        else:
            if not (len(c.args) >= 2 and isinstance(c.args[1], ast.Constant)):
                raise AnalysisError("tracker sweep: helper call outside the loop without a literal type")
            k = c.args[1].value
            sub = c.args[0]
            okarg = isinstance(sub, ast.Subscript) and isinstance(sub.value, ast.Name) and sub.value.id == regv and isinstance(sub.slice, ast.Constant) and sub.slice.value == k
            if not okarg and isinstance(sub, ast.Name):
                # the row fetched once into a local: `row = registry.get('folder')` / `row = registry['folder']`
                try:
                    okarg = ev(sub, {regv: keys}) == ("row", k) or any(
                        isinstance(d, ast.Subscript) and isinstance(d.value, ast.Name) and d.value.id == regv and isinstance(d.slice, ast.Constant) and d.slice.value == k
                        for d in e.local_defs(f, sub.id))
                except AnalysisError:
                    okarg = False
            if okarg and all(bool(ev(t.ast, {regv: keys})) == (lab == "T") for t, lab in ctl):
                swept.setdefault(k, []).append("after")
    R.info["sweep_coverage"] = {k: swept.get(k, []) for k in sorted(keys)}
    for k in sorted(keys):
        want = ["after"] if k == "folder" else ["loop"]
        R.check(swept.get(k, []) == want, "R-RT-SWEEP", f"sweep: type {k!r} is swept exactly once ({want[0]} the loop)" if k == "folder" else
                f"sweep: type {k!r} is swept exactly once (in the loop)", f.short, f"{k}: {swept.get(k, [])}",
                f"at end of life the resources of type {k!r} are swept {swept.get(k, []) or 'never'} instead of once "
                f"({'after every other type' if k == 'folder' else 'in the loop over the registry'}): they leak / are deleted in the wrong order",
                e.loc(f, outer))
    R.floor("R-RT-SWEEP", 4 + len(keys))


def _inside(e, node, anc):
    p = node
    while p is not None:
        if p is anc:
            return True
        p = e.prog.parent.get(id(p))
    return False


def _parents(e, node, stop):
    out = []
    p = e.prog.parent.get(id(node))
    while p is not None and p is not stop:
        out.append(p)
        p = e.prog.parent.get(id(p))
    return out


def _ancestors_until(e, node, stop):
    out = []
    p = e.prog.parent.get(id(node))
    while p is not None and p is not stop:
        out.append(p)
        p = e.prog.parent.get(id(p))
    return out


def stdlib_tracker_literals():
    """Command literals the stdlib client sends (read from the interpreter's
    own multiprocessing/resource_tracker.py, not imported)."""
    spec = importlib.util.find_spec("multiprocessing.resource_tracker")
    with open(spec.origin, encoding="utf-8") as fh:
        tree = ast.parse(fh.read())
    cmds = {}
    fmt = None
    for cls in [n for n in ast.walk(tree) if isinstance(n, ast.ClassDef) and n.name == "ResourceTracker"]:
        for m in [n for n in cls.body if isinstance(n, ast.FunctionDef)]:
            for c in ast.walk(m):
                if isinstance(c, ast.Call) and isinstance(c.func, ast.Attribute) and c.func.attr == "_send" and c.args and isinstance(c.args[0], ast.Constant):
                    cmds[m.name] = c.args[0].value
                if m.name == "_check_alive" and isinstance(c, ast.Constant) and isinstance(c.value, bytes) and b":" in c.value:
                    cmds[m.name] = c.value.decode().split(":")[0]
            if m.name == "_send":
                for c in ast.walk(m):
                    if isinstance(c, ast.JoinedStr):
                        fmt = ast.unparse(c)
    return cmds, fmt, spec.origin


def r_rt_proto(e, R):
    f, loop, tr, parse, roles = _loop_parts(e)
    cmdv, namev, rtypev = roles[0], roles[1], roles[2]
    # the line variable: the name assigned from readline()
    linev = None
    for n in func_nodes(f):
        if isinstance(n, ast.Assign) and isinstance(n.targets[0], ast.Name) and any(
                isinstance(c, ast.Call) and isinstance(c.func, ast.Attribute) and c.func.attr == "readline" for c in ast.walk(n.value)):
            linev = n.targets[0].id
    if linev is None:
        raise AnalysisError("tracker: the line variable is not recognised")
    # the wire format is `cmd:name:rtype\n` where the *name* may itself contain ':' (Windows paths, user-chosen names):
    # command = text before the first ':', type = text after the last ':', name = everything in between
    samples = [(b"REGISTER:/loky-1-x:semlock\n", ("REGISTER", "/loky-1-x", "semlock")),
               (b"MAYBE_UNLINK:/tmp/a:b:c:folder\n", ("MAYBE_UNLINK", "/tmp/a:b:c", "folder")),
               (b"UNREGISTER:C:\\dir\\f:file\n", ("UNREGISTER", "C:\\dir\\f", "file")),
               (b"PROBE:0:noop\n", ("PROBE", "0", "noop"))]
    bad = None
    for raw, want in samples:
        # every assignment to the line variable at the top level of the loop (the read itself, a strip after the EOF test, ...) is folded
        # before the parse block, with readline() standing for the sample
        pre = [st for st in loop.body if isinstance(st, ast.Assign) and any(isinstance(t_, ast.Name) and t_.id == linev for t_ in st.targets)]
        env = _ParseEval({"\0raw": raw}).run(pre + list(parse))
        got = (env.get(cmdv), env.get(namev), env.get(rtypev))
        if got != want:
            bad = (raw, got, want)
            break
    R.check(bad is None, "R-RT-PROTO", "command = text before the first ':', type = text after the last ':', name = everything in between (folded on sample lines)",
            f.short, "; ".join(norm(st)[:60] for st in parse)[:160],
            (f"the request parse maps {bad[0]!r} to (command, name, type) = {bad[1]!r} instead of {bad[2]!r}: names containing ':' are truncated or shifted "
             "into the type, the request is rejected as 'unknown resource type' and the resource is never tracked") if bad else "", e.loc(f, parse[0]))
    lits = dispatched_literals(e)
    # loky's own client
    sent = {}
    for q, fn in e.prog.funcs.items():
        if fn.module.name != RT:
            continue
        for c in func_nodes(fn):
            if isinstance(c, ast.Call) and isinstance(c.func, ast.Attribute) and c.func.attr == "_send" and c.args and isinstance(c.args[0], ast.Constant):
                sent[fn.short] = c.args[0].value
    std, fmt, origin = stdlib_tracker_literals()
    R.trust(f"client side of the protocol read from {origin}: {std}, line format {fmt}")
    for who, lit in list(sent.items()) + [("stdlib." + k, v) for k, v in std.items()]:
        R.check(lit in lits, "R-RT-PROTO", f"command {lit!r} sent by {who} is dispatched by the tracker loop", f.short, f"{lit} from {who}",
                f"clients send {lit!r} ({who}) but the tracker loop does not dispatch it: every such request is reported as malformed and ignored",
                e.loc(f, tr))
    R.check("ResourceTracker.maybe_unlink" in sent, "R-RT-PROTO", "loky's client can send MAYBE_UNLINK", RT, "maybe_unlink", "maybe_unlink no longer sends a request", None)
    # resource types registered anywhere in loky are keys of the cleanup table
    keys = cleanup_keys(e)
    used = set()
    for fn, c in e.all_calls():
        if isinstance(c.func, (ast.Attribute, ast.Name)) and (c.func.attr if isinstance(c.func, ast.Attribute) else c.func.id) in (
                "register", "unregister", "maybe_unlink") and len(c.args) == 2 and isinstance(c.args[1], ast.Constant) and isinstance(c.args[1].value, str):
            used.add((c.args[1].value, fn.short))
    for rt, who in sorted(used):
        R.check(rt in keys, "R-RT-PROTO", f"resource type {rt!r} used by {who} has a cleanup function", who, rt,
                f"{who} registers resources of type {rt!r}, which the tracker rejects as unknown: they are never cleaned up", None)
    R.check({"folder", "file", "semlock"} <= keys, "R-RT-PROTO", "cleanup table covers file, folder and semlock (POSIX arm)", RT, f"keys {sorted(keys)}",
            f"the cleanup table lacks {sorted({'folder', 'file', 'semlock'} - keys)}", None)
    R.floor("R-RT-PROTO", 8)


def cleanup_keys(e):
    mod = e.prog.modules[RT]
    keys = set()
    name = _loop_parts(e)[4][4]
    for n in func_nodes(mod.body_func):
        if isinstance(n, ast.Assign) and isinstance(n.targets[0], ast.Name) and n.targets[0].id == name and isinstance(n.value, ast.Dict):
            keys |= {k.value for k in n.value.keys if isinstance(k, ast.Constant)}
        if isinstance(n, ast.Assign) and isinstance(n.targets[0], ast.Subscript) and isinstance(n.targets[0].value, ast.Name) \
                and n.targets[0].value.id == name and isinstance(n.targets[0].slice, ast.Constant):
            keys.add(n.targets[0].slice.value)
    return keys


# ---------------------------------------------------------------------------
# C12: R-TRACKER-SHIP, R-SIG, R-RELAUNCH
# ---------------------------------------------------------------------------

SPAWN = "loky.backend.spawn"
POPEN = "loky.backend.popen_loky_posix"


def _tracker_singleton_loads(e, f, attr):
    """CFG nodes of f loading `<tracker singleton>.<attr>`."""
    g = e.cfg(f)
    out = []
    for n in g.nodes:
        if n.ast is None or n.kind in ("join", "with_exit", "except", "for_iter"):
            continue
        root = n.ast.context_expr if n.kind == "with_enter" else n.ast
        for x in _walk_noscope(root):
            if isinstance(x, ast.Attribute) and x.attr == attr and isinstance(x.ctx, ast.Load) and \
                    any(v[0] == "obj" and v[2] == f"{RT}:ResourceTracker" for v in e.pt.ev(f, x.value)):
                out.append(n)
    return out


def static_truth_module(e, f):
    """The module of f belongs to this build (posix arm), i.e. it is importable here."""
    return not f.module.name.endswith("win32") or os.name == "nt"


def r_tracker_ship(e, R):
    gp = e.prog.func(f"{SPAWN}:get_preparation_data")
    pr = e.prog.func(f"{SPAWN}:prepare")
    g = e.cfg(gp)
    ens = [n for n in g.nodes for c in calls_in(n) if isinstance(c.func, ast.Attribute) and c.func.attr == "ensure_running"
           and any(v[0] == "obj" and v[2] == f"{RT}:ResourceTracker" for v in e.pt.ev(gp, c.func.value))]
    loads = _tracker_singleton_loads(e, gp, "_fd") + _tracker_singleton_loads(e, gp, "_pid")
    R.check(bool(ens) and bool(loads) and all(any(g.dominates(x, l) for x in ens) for l in loads), "R-TRACKER-SHIP",
            "get_preparation_data: ensure_running() precedes reading the tracker's fd/pid", gp.short, "_resource_tracker.ensure_running()",
            "the tracker fd/pid are shipped to the child before the tracker is known to run (None or a dead tracker's fd is shipped)",
            e.loc(gp, gp.node))
    # keys written under the tracker entry vs keys read by prepare
    written = {}  # key -> attr of the singleton
    entry = None
    for n in func_nodes(gp):
        if isinstance(n, ast.Assign) and isinstance(n.targets[0], ast.Subscript):
            t = n.targets[0]
            if isinstance(t.slice, ast.Constant) and isinstance(n.value, ast.Dict) and isinstance(t.value, ast.Name):
                for k, v in zip(n.value.keys, n.value.values):
                    if isinstance(k, ast.Constant) and isinstance(v, ast.Attribute) and any(x[0] == "obj" and x[2] == f"{RT}:ResourceTracker" for x in e.pt.ev(gp, v.value)):
                        written[(t.slice.value, k.value)] = v.attr
            if isinstance(t.value, ast.Subscript) and isinstance(t.value.slice, ast.Constant) and isinstance(t.slice, ast.Constant) \
                    and isinstance(n.value, ast.Attribute) and any(x[0] == "obj" and x[2] == f"{RT}:ResourceTracker" for x in e.pt.ev(gp, n.value.value)):
                written[(t.value.slice.value, t.slice.value)] = n.value.attr
    # the same entry built through a local name: `entry = {...}; d["tracker_args"] = entry; entry["fd"] = ...`
    alias_key = {}
    for n in func_nodes(gp):
        if isinstance(n, ast.Assign) and isinstance(n.targets[0], ast.Subscript) and isinstance(n.targets[0].slice, ast.Constant) and isinstance(n.value, ast.Name) \
                and any(isinstance(d_, ast.Dict) for d_ in e.local_defs(gp, n.value.id)):
            alias_key[n.value.id] = n.targets[0].slice.value
    def is_tracker_field(fn_, v):
        return isinstance(v, ast.Attribute) and any(x[0] == "obj" and x[2] == f"{RT}:ResourceTracker" for x in e.pt.ev(fn_, v.value))
    for n in func_nodes(gp):
        if isinstance(n, ast.Assign) and isinstance(n.targets[0], ast.Name) and n.targets[0].id in alias_key and isinstance(n.value, ast.Dict):
            for k, v in zip(n.value.keys, n.value.values):
                if isinstance(k, ast.Constant) and is_tracker_field(gp, v):
                    written[(alias_key[n.targets[0].id], k.value)] = v.attr
        if isinstance(n, ast.Assign) and isinstance(n.targets[0], ast.Subscript) and isinstance(n.targets[0].value, ast.Name) and n.targets[0].value.id in alias_key \
                and isinstance(n.targets[0].slice, ast.Constant) and is_tracker_field(gp, n.value):
            written[(alias_key[n.targets[0].value.id], n.targets[0].slice.value)] = n.value.attr
    read = {}
    ralias = {}
    for n in func_nodes(pr):
        if isinstance(n, ast.Assign) and isinstance(n.targets[0], ast.Name) and isinstance(n.value, ast.Subscript) and isinstance(n.value.slice, ast.Constant) \
                and isinstance(n.value.value, ast.Name) and n.value.value.id in pr.params and len(e.local_defs(pr, n.targets[0].id)) == 1:
            ralias[n.targets[0].id] = n.value.slice.value
    for n in func_nodes(pr):
        if isinstance(n, ast.Assign) and isinstance(n.targets[0], ast.Attribute) and isinstance(n.value, ast.Subscript) and isinstance(n.value.value, ast.Name) \
                and n.value.value.id in ralias and isinstance(n.value.slice, ast.Constant) \
                and any(x[0] == "obj" and x[2] == f"{RT}:ResourceTracker" for x in e.pt.ev(pr, n.targets[0].value)):
            read[(ralias[n.value.value.id], n.value.slice.value)] = n.targets[0].attr
    for n in func_nodes(pr):
        if isinstance(n, ast.Assign) and isinstance(n.targets[0], ast.Attribute) and isinstance(n.value, ast.Subscript) \
                and isinstance(n.value.value, ast.Subscript) and isinstance(n.value.slice, ast.Constant) and isinstance(n.value.value.slice, ast.Constant) \
                and any(x[0] == "obj" and x[2] == f"{RT}:ResourceTracker" for x in e.pt.ev(pr, n.targets[0].value)):
            read[(n.value.value.slice.value, n.value.slice.value)] = n.targets[0].attr
    R.info["tracker_args_written"] = {f"{a}.{b}": v for (a, b), v in written.items()}
    R.info["tracker_args_read"] = {f"{a}.{b}": v for (a, b), v in read.items()}
    R.check(bool(written) and written == read, "R-TRACKER-SHIP", f"preparation data keys written {sorted(written)} = keys installed by prepare, same fields",
            pr.short, f"written {written} / read {read}", "the tracker pid/fd shipped in the preparation data are not the ones prepare() installs "
            "into the child's tracker singleton (key or field mismatch): the child starts its own tracker", e.loc(pr, pr.node))
    R.check(set(written.values()) == {"_pid", "_fd"}, "R-TRACKER-SHIP", "both the tracker's pid and fd are shipped", gp.short, "pid, fd",
            f"only {sorted(written.values())} of the tracker is shipped to the child", e.loc(gp, gp.node))
    # the child installs the inherited tracker before any code of the user's program runs in it: the re-execution of the
    # parent's __main__ (runpy) and the unpickling of the process object may create tracked resources, and a tracker
    # singleton whose fd is still None would start a private tracker for this child.
    pg = e.cfg(pr)

    def runs_user_code(func, call):
        return isinstance(call.func, ast.Attribute) and isinstance(call.func.value, ast.Name) and call.func.value.id == "runpy" \
            and call.func.attr in ("run_module", "run_path", "_run_module_as_main")
    user_nodes = [n for n in pg.nodes for c in calls_in(n) if e.call_has_effect(pr, c, runs_user_code)]
    installs = [n for n in pg.nodes if n.kind == "stmt" and isinstance(n.ast, ast.Assign) and isinstance(n.ast.targets[0], ast.Attribute)
                and n.ast.targets[0].attr in ("_fd", "_pid")
                and (any(x[0] == "obj" and x[2] == f"{RT}:ResourceTracker" for x in e.pt.ev(pr, n.ast.targets[0].value))
                     or "tracker" in norm(n.ast.targets[0].value))]
    R.info["prepare_user_code_calls"] = [norm(c.func) for n in user_nodes for c in calls_in(n)]
    if not user_nodes or not installs:
        raise AnalysisError("prepare(): main-module fix-up or tracker install not recognised")
    for u in user_nodes:
        late = [i for i in installs if pg.find_path(u, lambda x, i=i: x is i, use_exc=False) is not None]
        R.check(not late, "R-TRACKER-SHIP", "prepare: the inherited tracker(s) are installed before the parent's __main__ is re-executed in the child",
                pr.short, norm(u.ast)[:70], "the child re-executes the user's main module while its tracker singleton still has no fd: a resource "
                "created at import time starts a private tracker for this child (a second tracker in the tree, which sweeps at this child's exit); "
                f"installed later: {[norm(i.ast)[:50] for i in late]}", e.loc(pr, u.ast))
    # polarity of the install gate: when the preparation data carries the tracker entry, both fields are installed
    from . import scenario as SC
    keys = {k[0] for k in written}

    def has_key(val, key):
        def ev(x):
            if isinstance(x, ast.Compare) and len(x.ops) == 1 and isinstance(x.ops[0], (ast.In, ast.NotIn)) and isinstance(x.left, ast.Constant) and x.left.value == key:
                return val == isinstance(x.ops[0], ast.In)
            return None
        return ev
    loky_inst = [n for n in installs if any(x[0] == "obj" and x[2] == f"{RT}:ResourceTracker" for x in e.pt.ev(pr, n.ast.targets[0].value))]
    for key in sorted(k for k in keys if k in {kk[0] for kk, v in written.items()}):
        mine = [n for n in installs if isinstance(n.ast.value, ast.Subscript) and (
            (isinstance(n.ast.value.value, ast.Subscript) and isinstance(n.ast.value.value.slice, ast.Constant) and n.ast.value.value.slice.value == key)
            or (isinstance(n.ast.value.value, ast.Name) and ralias.get(n.ast.value.value.id) == key))]
        for attr_ in ("_fd", "_pid"):
            tg = [n for n in mine if n.ast.targets[0].attr == attr_]
            okE = SC.Facts([], [has_key(True, key)]).edge_ok()
            arm = lambda n, m, l: okE(n, m, l) and not (n.kind == "test" and static_truth(n.ast) is not None and (l == "T") != static_truth(n.ast) and l in ("T", "F"))
            esc = pg.escape_path(pg.entry, lambda n: n in tg, use_exc=False, edge_ok=arm)
            R.check(bool(tg) and esc is None, "R-TRACKER-SHIP", f"prepare: when the data carries {key!r}, the tracker's {attr_} is installed on every path", pr.short,
                    f"{key} -> {attr_}", f"the child receives the parent's tracker ({key!r}) but does not install its {attr_}: it starts a tracker of its own "
                    "(a second tracker in the tree) or talks to a tracker it believes dead", e.loc(pr, pr.node), pg.fmt_path(esc) if esc else None)
        okN = SC.Facts([], [has_key(False, key)]).edge_ok()
        bad = SC.Facts([], [has_key(False, key)]).find(pg, pg.entry, lambda n: n in mine, use_exc=False)
        R.check(bad is None, "R-TRACKER-SHIP", f"prepare: without {key!r} in the data nothing is installed (no KeyError in the child's start-up)", pr.short, key,
                "prepare() reads a tracker entry that is not in the data: the child dies at start-up", e.loc(pr, pr.node))
    # the parent writes the tracker entry unconditionally (both fields on this platform)
    gg = e.cfg(gp)
    tnames = {nm for nm, k_ in alias_key.items() if k_ == "tracker_args"}
    wr_nodes = [n for n in gg.nodes if n.kind == "stmt" and isinstance(n.ast, ast.Assign) and (
        (isinstance(n.ast.targets[0], ast.Subscript) and (any(isinstance(x, ast.Constant) and x.value == "tracker_args" for x in ast.walk(n.ast.targets[0]))
                                                          or (isinstance(n.ast.targets[0].value, ast.Name) and n.ast.targets[0].value.id in tnames)))
        or (isinstance(n.ast.targets[0], ast.Name) and n.ast.targets[0].id in tnames))]
    arm2 = lambda n, m, l: not (n.kind == "test" and l in ("T", "F") and static_truth(n.ast) is not None and (l == "T") != static_truth(n.ast))
    for want in ("_pid", "_fd"):
        tg = [n for n in wr_nodes if any(isinstance(x, ast.Attribute) and x.attr == want for x in ast.walk(n.ast.value))]
        esc = gg.escape_path(gg.entry, lambda n: n in tg, use_exc=False, edge_ok=arm2)
        R.check(bool(tg) and esc is None, "R-TRACKER-SHIP", f"get_preparation_data: the tracker's {want} is written on every path (this platform's arm)", gp.short,
                f"d['tracker_args'][...] = _resource_tracker.{want}", f"the tracker's {want} is not always shipped to the child", e.loc(gp, gp.node))
    # the child's entry point prepares before it unpickles the process object
    for mq in (f"{POPEN}:<module>", "loky.backend.popen_loky_win32:main"):  # the posix entry point is module-level code
        mf = e.prog.funcs.get(mq)
        if mf is None:
            raise AnalysisError(f"child entry point {mq} not found")
        if not static_truth_module(e, mf):
            continue
        mg = e.cfg(mf)
        preps = [n for n in mg.nodes for c in calls_in(n) if f"{SPAWN}:prepare" in e.callees_of(c)]
        boots = [n for n in mg.nodes for c in calls_in(n) if isinstance(c.func, ast.Attribute) and c.func.attr == "_bootstrap"]
        objv = {c.func.value.id for n in boots for c in calls_in(n) if isinstance(c.func, ast.Attribute) and c.func.attr == "_bootstrap" and isinstance(c.func.value, ast.Name)}
        loads = [n for n in mg.nodes if n.kind == "stmt" and isinstance(n.ast, ast.Assign) and isinstance(n.ast.targets[0], ast.Name) and n.ast.targets[0].id in objv]
        if not preps or not loads:
            raise AnalysisError(f"{mq}: prepare() call or the load of the process object not recognised")
        R.check(all(any(mg.dominates(p_, l) for p_ in preps) for l in loads), "R-TRACKER-SHIP",
                "child entry point: prepare() (tracker install) dominates the unpickling of the process object", mf.short, "spawn.prepare(prep_data)",
                "the process object (locks, queues, user arguments) is unpickled before the inherited tracker is installed", e.loc(mf, loads[0].ast))
    # prepare guards on the key being present
    # launch: the tracker fd is inheritable and in the keep-list
    la = e.prog.func(f"{POPEN}:Popen._launch")
    lg = e.cfg(la)
    fdv = None
    for n in func_nodes(la):
        if isinstance(n, ast.Assign) and isinstance(n.value, ast.Call) and isinstance(n.value.func, ast.Attribute) and n.value.func.attr == "getfd" \
                and isinstance(n.targets[0], ast.Name):
            fdv = n.targets[0].id
    R.check(fdv is not None, "R-TRACKER-SHIP", "_launch: obtains the tracker fd through getfd() (which ensures the tracker runs)", la.short, "getfd()",
            "the launch no longer obtains the tracker fd", e.loc(la, la.node))
    # the fd kept open for the child and the fd/pid written into its preparation data must be those of ONE tracker: getfd() (which may
    # relaunch a dead tracker on another descriptor) runs before the preparation data is computed, and not again in between
    gfd = [n for n in lg.nodes for c in calls_in(n) if isinstance(c.func, ast.Attribute) and c.func.attr == "getfd"]
    prep = [n for n in lg.nodes for c in calls_in(n) if gp.qualname in e.callees_of(c)]
    if gfd and prep:
        R.check(all(any(lg.dominates(x, p_) for x in gfd) for p_ in prep) and not any(lg.dominates(p_, x) for p_ in prep for x in gfd), "R-TRACKER-SHIP",
                "_launch: the tracker fd is obtained before the preparation data records the tracker's fd/pid", la.short, "getfd() before get_preparation_data()",
                "the tracker fd kept for the child is obtained after the preparation data was computed: if the tracker dies in between (while the process object is "
                "pickled), getfd() relaunches it on another descriptor, the child is told the old number, and its first tracked operation fails with EBADF "
                "instead of reaching the tree's tracker", e.loc(la, gfd[0].ast))
    fe = [n for n in lg.nodes for c in calls_in(n) if e.callees_of(c) & {"loky.backend.fork_exec:fork_exec"}]
    from .process import makes_inheritable, keep_list_attr
    KEEPL = keep_list_attr(e)
    inh = [n for n in lg.nodes for c in calls_in(n) if makes_inheritable(e, la, c) and c.args and isinstance(c.args[0], ast.Name) and c.args[0].id == fdv]
    keep = [n for n in lg.nodes if n.kind == "stmt" and isinstance(n.ast, (ast.AugAssign, ast.Assign, ast.Expr))
            and any(isinstance(x, ast.Name) and x.id == fdv for x in ast.walk(n.ast))
            and any(isinstance(x, ast.Attribute) and x.attr == KEEPL for x in ast.walk(n.ast))]
    R.check(bool(fe) and bool(inh) and all(any(lg.dominates(i, f_) for i in inh) for f_ in fe), "R-TRACKER-SHIP",
            "_launch: the tracker fd is made inheritable before fork_exec", la.short, "_mk_inheritable(tracker_fd)",
            "the tracker fd is not inheritable when the child is exec'ed", e.loc(la, la.node))
    R.check(bool(keep) and all(any(lg.dominates(k, f_) for k in keep) for f_ in fe), "R-TRACKER-SHIP",
            "_launch: the tracker fd is in the keep-list passed to fork_exec", la.short, "self._fds += [..., tracker_fd]",
            "the tracker fd is closed by close_fds in the child: the child cannot reach the shared tracker", e.loc(la, la.node))
    for f_ in fe:
        for c in calls_in(f_):
            if e.callees_of(c) & {"loky.backend.fork_exec:fork_exec"}:
                ok = len(c.args) > 1 and isinstance(c.args[1], ast.Attribute) and c.args[1].attr == KEEPL
                R.check(ok, "R-TRACKER-SHIP", "_launch: fork_exec receives the keep-list", la.short, norm(c)[:60], "fork_exec does not get the keep-list", e.loc(la, c))
    R.floor("R-TRACKER-SHIP", 6)


def r_sig(e, R):
    f = tracker_main(e)
    g = e.cfg(f)
    _, loop, _, _, _ = _loop_parts(e)
    heads = [n for n in g.nodes if n.kind == "join" and n.tag == "loop-head" and n.ast is loop]
    mod = e.prog.modules[RT]

    def _listed(x):
        """signal names of a literal tuple/list, or of a module-level name bound once to one."""
        if isinstance(x, ast.Name):
            defs = [n.value for n in func_nodes(mod.body_func) if isinstance(n, ast.Assign) and any(isinstance(t_, ast.Name) and t_.id == x.id for t_ in n.targets)]
            if len(defs) != 1 or e.local_defs(f, x.id):
                return set()
            x = defs[0]
        return {norm(v).split(".")[-1] for v in x.elts} if isinstance(x, (ast.Tuple, ast.List)) else set()

    def _ignored_by(n, c):
        """(signal names, dominating node) of one signal.signal(..., SIG_IGN) call: direct, or in a plain loop over a signal list."""
        a = c.args[0]
        if not isinstance(a, ast.Name):
            return {norm(a).split(".")[-1]}, n
        p = parent(e, stmt_of(e, f, c))
        if isinstance(p, ast.For) and isinstance(p.target, ast.Name) and p.target.id == a.id and not p.orelse \
                and not any(isinstance(x, (ast.Break, ast.Continue, ast.Return, ast.Raise)) for s in p.body for x in ast.walk(s)) \
                and isinstance(parent(e, p), ast.FunctionDef):
            lh = [h for h in g.nodes if h.tag == "loop-head" and h.ast is p]
            if lh:
                return _listed(p.iter), lh[0]
        return set(), n

    ign_sites = [(_ignored_by(n, c)) for n in g.nodes for c in calls_in(n) if norm(c.func) == "signal.signal" and len(c.args) == 2
                 and norm(c.args[1]).endswith("SIG_IGN")]
    for sig in ("SIGINT", "SIGTERM"):
        ign = [n for names, n in ign_sites if sig in names]
        R.check(bool(ign) and all(any(g.dominates(i, h) for i in ign) for h in heads), "R-SIG", f"tracker main ignores {sig} before reading requests",
                f.short, f"signal.signal(signal.{sig}, signal.SIG_IGN)", f"the tracker does not ignore {sig}: ^C or `killall python` ends it before the "
                "last process of the tree and tracked resources leak", e.loc(f, f.node))
    handlers = [n for n in g.nodes for c in calls_in(n) if norm(c.func) == "signal.signal" and len(c.args) == 2 and not norm(c.args[1]).endswith("SIG_IGN")]
    R.check(not handlers, "R-SIG", "no other handler is installed for signals in the tracker", f.short, "signal.signal", "a non-ignoring handler is installed",
            e.loc(f, f.node))
    # ensure_running: SIG_BLOCK ... spawn ... SIG_UNBLOCK in finally
    er = e.prog.func(f"{RT}:ResourceTracker.ensure_running")
    eg = e.cfg(er)
    blk = [n for n in eg.nodes for c in calls_in(n) if norm(c.func).endswith("pthread_sigmask") and c.args and norm(c.args[0]).endswith("SIG_BLOCK")]
    unb = [n for n in eg.nodes for c in calls_in(n) if norm(c.func).endswith("pthread_sigmask") and c.args and norm(c.args[0]).endswith("SIG_UNBLOCK")]
    sp = [n for n in eg.nodes for c in calls_in(n) if e.callees_of(c) & {f"{RT}:spawnv_passfds"}]
    R.check(bool(blk) and bool(sp) and all(any(eg.dominates(b, s) or _guarded_pair(eg, b, s) for b in blk) for s in sp), "R-SIG",
            "ensure_running: SIGINT/SIGTERM are blocked before the tracker is spawned", er.short, "pthread_sigmask(SIG_BLOCK, ...)",
            "the tracker is spawned with SIGINT/SIGTERM deliverable before it installs its handlers (can die during start-up)", e.loc(er, er.node))
    for b in blk:
        from .util import correlated_edge_ok
        esc = eg.find_path(b, lambda n: n is eg.exit or n is eg.raise_exit, avoid=unb, use_exc=True, start_labels=[None],
                           edge_ok=correlated_edge_ok(e, er, b))
        R.check(esc is None and bool(unb), "R-SIG", "ensure_running: the signal mask is restored on every path (finally)", er.short,
                "pthread_sigmask(SIG_UNBLOCK, ...) in finally", "the caller is left with SIGINT/SIGTERM blocked when the spawn fails", e.loc(er, b.ast),
                eg.fmt_path(esc) if esc else None)
    setnames = {norm(c.args[1]) for n in blk for c in calls_in(n) if norm(c.func).endswith("pthread_sigmask") and len(c.args) == 2 and isinstance(c.args[1], ast.Name)}
    if len(setnames) != 1:
        raise AnalysisError("ensure_running: the signal set blocked around the spawn is not one module-level name")
    SIGSET = setnames.pop()
    for c in [c for n in blk + unb for c in calls_in(n) if norm(c.func).endswith("pthread_sigmask")]:
        R.check(len(c.args) == 2 and norm(c.args[1]) == SIGSET, "R-SIG", f"ensure_running: {norm(c.args[0])} applies to the ignored-signals set",
                er.short, norm(c), "block/unblock do not use the same signal set", e.loc(er, c))
    mod = e.prog.modules[RT]
    sigs = None
    for n in func_nodes(mod.body_func):
        if isinstance(n, ast.Assign) and isinstance(n.targets[0], ast.Name) and n.targets[0].id == SIGSET:
            sigs = {norm(x).split(".")[-1] for x in n.value.elts} if isinstance(n.value, (ast.Tuple, ast.List)) else None
    R.check(sigs == {"SIGINT", "SIGTERM"}, "R-SIG", "the blocked set is {SIGINT, SIGTERM}", RT, f"{SIGSET} = {sigs}",
            "the set of signals blocked around the spawn is not {SIGINT, SIGTERM}", None)
    # main unblocks them again after installing SIG_IGN
    unb_m = [n for n in g.nodes for c in calls_in(n) if norm(c.func).endswith("pthread_sigmask") and c.args and norm(c.args[0]).endswith("SIG_UNBLOCK")]
    ign_all = [n for _names, n in ign_sites]
    R.check(bool(unb_m) and all(all(g.dominates(i, u) for i in ign_all) for u in unb_m), "R-SIG", "tracker main unblocks the signals only after ignoring them",
            f.short, "SIG_UNBLOCK after SIG_IGN", "the inherited mask is lifted before the handlers are installed", e.loc(f, f.node))
    R.floor("R-SIG", 8)


def _guarded_pair(g, b, s):
    """b precedes s on every path on which b executes (b is conditional on a
    capability test that also guards the matching unblock)."""
    return g.path_exists(b, lambda n: n is s, use_exc=False) and not g.path_exists(s, lambda n: n is b, use_exc=False)


def r_relaunch(e, R):
    er = e.prog.func(f"{RT}:ResourceTracker.ensure_running")
    g = e.cfg(er)
    held = e.held(er)
    withs = [n for n in g.nodes if n.kind == "with_enter"]
    ce0 = inline_locals(e, er, withs[0].ast.context_expr) if withs else None
    R.check(bool(withs) and isinstance(ce0, ast.Attribute) and ce0.attr == "_lock", "R-RELAUNCH",
            "ensure_running: body under the tracker lock", er.short, "with self._lock", "two threads can launch two trackers", e.loc(er, er.node))
    alive = [t for t in g.nodes if t.kind == "test" and any(isinstance(c.func, ast.Attribute) and c.func.attr == "_check_alive" for c in calls_in(t))]
    sp = [n for n in g.nodes for c in calls_in(n) if e.callees_of(c) & {f"{RT}:spawnv_passfds"}]
    if not alive or not sp:
        R.fail("R-RELAUNCH", er.short, "_check_alive / spawn", "ensure_running no longer probes the tracker or never spawns one", e.loc(er, er.node))
        return
    t = alive[0]
    # alive => return without spawning
    R.check(not g.path_exists(t, lambda n: n in sp, avoid=[t], start_labels=["T"], use_exc=False), "R-RELAUNCH",
            "ensure_running: a live tracker is reused", er.short, "if self._check_alive(): return", "a second tracker is spawned although one is alive",
            e.loc(er, t.ast))
    # dead => close old fd, reap, reset both fields, fall through to the launch
    closes = [n for n in g.nodes for c in calls_in(n) if norm(c.func) == "os.close" and c.args and norm(c.args[0]) == "self._fd" and g.on_branch(n, t, "F")]
    reaps = [n for n in g.nodes for c in calls_in(n) if norm(c.func) == "os.waitpid" and g.on_branch(n, t, "F")]
    resets = {a_: [n for n in g.nodes if n.kind == "stmt" and isinstance(n.ast, ast.Assign) and isinstance(n.ast.targets[0], ast.Attribute)
                   and n.ast.targets[0].attr == a_ and isinstance(n.ast.value, ast.Constant) and n.ast.value.value is None and g.on_branch(n, t, "F")]
              for a_ in ("_fd", "_pid")}
    R.check(bool(closes), "R-RELAUNCH", "ensure_running: the dead tracker's fd is closed", er.short, "os.close(self._fd)", "fd leak per tracker relaunch", e.loc(er, t.ast))
    R.check(bool(reaps) and all(any(m.kind == "except" for m, l in n.succ if l == "exc") for n in reaps), "R-RELAUNCH",
            "ensure_running: the dead tracker is reaped (failure tolerated)", er.short, "os.waitpid(self._pid, 0)", "zombie tracker per relaunch", e.loc(er, t.ast))
    # the tracker is the child of the *root* process only: in every other process of the tree waitpid raises ChildProcessError
    for n in reaps:
        trys = [pp for pp in _parents(e, stmt_of(e, er, n.ast) if not isinstance(n.ast, ast.stmt) else n.ast, er.node) if isinstance(pp, ast.Try)]
        hts = {("bare" if h.type is None else norm(h.type)) for tr_ in trys[:1] for h in tr_.handlers}
        R.check(bool(hts & {"bare", "OSError", "ChildProcessError", "Exception", "BaseException"}), "R-RELAUNCH",
                "ensure_running: reaping tolerates ChildProcessError (the tracker is not this process's child in a worker)", er.short,
                f"except {sorted(hts)}", f"waitpid on the dead tracker is only protected by {sorted(hts)}: in a child process (the tracker belongs to "
                "the root) ChildProcessError escapes and the tracker is never relaunched there", e.loc(er, n.ast))
    # the probe is made exactly when a tracker was installed; without one the launch is reached directly
    fdt = [x for x in g.nodes if x.kind == "test" and none_test(x.ast) and norm(none_test(x.ast)[0]) == "self._fd"]
    if not fdt:
        raise AnalysisError("ensure_running: test of self._fd against None not found")
    ft = fdt[0]
    nn_label = none_test(ft.ast)[1]                       # label on which the operand is NOT None
    none_label = "F" if nn_label == "T" else "T"
    R.check(g.on_branch(t, ft, nn_label), "R-RELAUNCH", "ensure_running: the liveness probe runs only when a tracker fd is installed", er.short,
            norm(ft.ast), "the tracker is probed through a None fd / not probed when one is installed", e.loc(er, ft.ast))
    R.check(g.path_exists(ft, lambda x: x in sp, avoid=[t], start_labels=[none_label], use_exc=False), "R-RELAUNCH",
            "ensure_running: without an installed tracker the launch is reached", er.short, norm(ft.ast),
            "no tracker is ever launched for a process that has none", e.loc(er, ft.ast))
    R.check(all(resets.values()), "R-RELAUNCH", "ensure_running: fd and pid are reset before the relaunch", er.short, "self._fd = None; self._pid = None",
            "a failed relaunch leaves the dead tracker's fd/pid installed", e.loc(er, t.ast))
    # lending the launcher's stderr to the tracker is optional (the handler says so: it passes): `sys.stderr` is whatever object the
    # application installed, its fileno() can raise anything (ValueError on a closed / detached stream, UnsupportedOperation,
    # AttributeError on None): none of that may prevent the (re)launch
    for n_ in g.nodes:
        for c in calls_in(n_):
            if isinstance(c.func, ast.Attribute) and c.func.attr == "fileno" and norm(c.func.value).endswith("stderr"):
                R.check(_broadly_protected(e, c, er.node), "R-RELAUNCH", "ensure_running: a failing sys.stderr.fileno() cannot prevent the launch", er.short,
                        norm(c), "`sys.stderr.fileno()` is not inside a try with a broad handler: a closed / detached / replaced stderr raises (ValueError: I/O "
                        "operation on closed file) out of ensure_running; when that happens at a relaunch `_fd` is already None, so every later tracked "
                        "operation of the process fails the same way and the tree stays without a tracker", e.loc(er, c))
    # ... and at once: between closing the old descriptor and clearing the field that holds its *number* nothing may run that the
    # user can make raise (warnings.warn under -W error / filterwarnings=error): ensure_running would exit with `_fd` naming a closed
    # descriptor, which the next probe writes to -- by then possibly the application's own file
    warns_ = lambda x: any(norm(c.func) == "warnings.warn" for c in calls_in(x))
    for cn in closes:
        stale = g.find_path(cn, warns_, avoid=resets["_fd"], use_exc=False)
        R.check(stale is None, "R-RELAUNCH", "ensure_running: the closed descriptor's number is cleared before anything that can be made to raise", er.short,
                "os.close(self._fd); ...; self._fd = None; warnings.warn(...)", "warnings.warn runs between os.close(self._fd) and `self._fd = None`: with warnings "
                "configured as errors it raises, ensure_running exits with `_fd` holding the number of a closed descriptor and no tracker; once the application "
                "opens another file that number is reused, the liveness probe succeeds on it and every later REGISTER / UNREGISTER is written into that file: "
                "nothing is tracked any more (semaphores of a killed process stay in /dev/shm)", e.loc(er, cn.ast), g.fmt_path(stale) if stale else None)
        # the same holds for the reap and for the pid: a warning that raises before os.waitpid / `self._pid = None` leaves ensure_running with
        # `_fd` cleared, so the next call skips the dead-tracker branch, launches a new tracker and overwrites `_pid`: the dead one is never
        # reaped -- one zombie child per tracker death (seed C20-r7)
        for what, stops, txt in (("reaped", reaps, "os.waitpid(self._pid, 0)"), ("forgotten (`_pid = None`)", resets["_pid"], "self._pid = None")):
            if not stops:
                continue
            early = g.find_path(cn, warns_, avoid=stops, use_exc=False)
            R.check(early is None, "R-RELAUNCH", f"ensure_running: the dead tracker is {what} before anything that can be made to raise", er.short,
                    f"os.close(self._fd); ...; {txt}; warnings.warn(...)", f"warnings.warn runs before the dead tracker is {what}: with warnings configured as "
                    "errors it raises out of ensure_running; the next call finds `_fd` cleared, launches a new tracker and overwrites `_pid`, so the dead "
                    "tracker is never reaped (one zombie child of the application per tracker death) / the stale pid is waited for later",
                    e.loc(er, cn.ast), g.fmt_path(early) if early else None)
    for n in [x for v in resets.values() for x in v]:
        R.check(g.path_exists(n, lambda x: x in sp, use_exc=False) and
                g.find_path(n, lambda x: x is g.exit, avoid=sp, use_exc=False) is None, "R-RELAUNCH",
                "ensure_running: the dead-tracker branch falls through to the launch", er.short, norm(n.ast),
                "after detecting a dead tracker ensure_running returns without starting a new one: the next tracked operation fails (EPIPE)",
                e.loc(er, n.ast))
    # launch: fd/pid stored only on success, w closed on failure, r closed on all paths
    pipe = [n for n in g.nodes if n.kind == "stmt" and isinstance(n.ast, ast.Assign) and isinstance(n.ast.value, ast.Call) and norm(n.ast.value.func) == "os.pipe"
            and isinstance(n.ast.targets[0], ast.Tuple)]
    if len(pipe) != 1:
        raise AnalysisError("ensure_running: os.pipe() not found")
    rv, wv = [x.id for x in pipe[0].ast.targets[0].elts]
    st_fd = [n for n in g.nodes if n.kind == "stmt" and isinstance(n.ast, ast.Assign) and isinstance(n.ast.targets[0], ast.Attribute)
             and n.ast.targets[0].attr == "_fd" and isinstance(n.ast.value, ast.Name) and n.ast.value.id == wv]
    st_pid = [n for n in g.nodes if n.kind == "stmt" and isinstance(n.ast, ast.Assign) and isinstance(n.ast.targets[0], ast.Attribute)
              and n.ast.targets[0].attr == "_pid" and isinstance(n.ast.value, ast.Name)]
    R.check(bool(st_fd) and bool(st_pid) and all(any(g.dominates(s, x) for s in sp) for x in st_fd + st_pid), "R-RELAUNCH",
            "ensure_running: the write end and the pid are installed after a successful spawn", er.short, "self._fd = w; self._pid = pid",
            "the tracker fd/pid are installed although the spawn may have failed", e.loc(er, er.node))
    # exceptional path from the spawn closes w
    closew = [n for n in g.nodes for c in calls_in(n) if norm(c.func) == "os.close" and c.args and isinstance(c.args[0], ast.Name) and c.args[0].id == wv]
    for s in sp:
        esc = g.find_path(s, lambda n: n is g.raise_exit, avoid=closew, use_exc=True, start_labels=["exc"])
        R.check(esc is None and bool(closew), "R-RELAUNCH", "ensure_running: the write end is closed when the spawn fails", er.short, "os.close(w)",
                "fd leak when the tracker cannot be spawned", e.loc(er, s.ast))
    closer = [n for n in g.nodes for c in calls_in(n) if norm(c.func) == "os.close" and c.args and isinstance(c.args[0], ast.Name) and c.args[0].id == rv]
    esc = g.find_path(pipe[0], lambda n: n is g.exit or n is g.raise_exit, avoid=closer, use_exc=True, start_labels=[None])
    R.check(esc is None and bool(closer), "R-RELAUNCH", "ensure_running: the read end is closed in the parent on every path", er.short, "os.close(r) in finally",
            "the parent keeps the read end of the tracker pipe: the tracker never sees EOF and never does its end-of-life sweep", e.loc(er, er.node),
            g.fmt_path(esc) if esc else None)
    # the spawn passes r (and only descriptors collected in fds_to_pass)
    for s in sp:
        for c in calls_in(s):
            if e.callees_of(c) & {f"{RT}:spawnv_passfds"}:
                lst = c.args[2] if len(c.args) > 2 else None
                apps = [x for x in func_nodes(er) if isinstance(x, ast.Call) and isinstance(x.func, ast.Attribute) and x.func.attr == "append"
                        and isinstance(x.func.value, ast.Name) and isinstance(lst, ast.Name) and x.func.value.id == lst.id]
                okr = any(isinstance(a_.args[0], ast.Name) and a_.args[0].id == rv for a_ in apps)
                R.check(okr, "R-RELAUNCH", "ensure_running: the read end is passed to the tracker", er.short, norm(c)[:60], "the tracker is not given the pipe", e.loc(er, c))
    # maybe_unlink ensures the tracker runs before sending
    mu = e.prog.func(f"{RT}:ResourceTracker.maybe_unlink")
    mg = e.cfg(mu)
    en = [n for n in mg.nodes for c in calls_in(n) if isinstance(c.func, ast.Attribute) and c.func.attr == "ensure_running"]
    se = [n for n in mg.nodes for c in calls_in(n) if isinstance(c.func, ast.Attribute) and c.func.attr == "_send"]
    R.check(bool(en) and bool(se) and all(any(mg.dominates(x, s) for x in en) for s in se), "R-RELAUNCH", "maybe_unlink: ensure_running() before _send",
            mu.short, "self.ensure_running()", "maybe_unlink writes to a dead tracker's pipe instead of relaunching it", e.loc(mu, mu.node))
    # the class extends the stdlib tracker (register/unregister/_send/_check_alive/getfd come from there)
    R.check(e.pt.has_ext_base(f"{RT}:ResourceTracker", "ResourceTracker"), "R-RELAUNCH", "loky's tracker extends the stdlib ResourceTracker", RT, "bases",
            "loky's tracker no longer derives from the stdlib one", None)
    R.floor("R-RELAUNCH", 12)
