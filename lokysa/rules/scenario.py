"""Scenario rules (R-SCN-*): branch *polarity* of the conditions the other rules rely on.

Most rules of this package are must-pass-through / who-may-call / ordering rules: they establish
that an operation exists on the right paths.  A condition written the wrong way round (`if x is
None` for `if x is not None`, `while not pending` for `while pending`) keeps every such
structure intact.  The scenario rules close that gap: a scenario fixes the truth value of a few
atoms (an attribute, a local, a call result, an isinstance test), the function's CFG is pruned to
the branches consistent with those values (three-valued: tests over other atoms keep both
branches), and an obligation is checked on the pruned graph:

  must   -- every normal path from the entry to an exit passes a target node, and one exists;
  never  -- no path from the entry reaches a target node.

The atoms and targets are resolved through the role anchors / points-to, not through names.
Facts are state-invariant during the traversal (a loop whose guard is fixed true never exits),
which is what "the first evaluation of the guard in this state" needs.
"""
import ast

from ..model import func_nodes, norm, AnalysisError
from ..cfg import calls_in, _walk_noscope
from .util import none_test, node_has_effect, effect_nodes, calls_method_of
from .liveness import resolve_pred, flag_writers, wake_pred

PE = "loky.process_executor"


# ---------------------------------------------------------------- three-valued evaluation
class Facts:
    """items: list of (matcher(expr) -> bool, value).  value:
       'T' / 'F'      truthiness of the expression
       'none' / 'some' the expression is / is not None ('some' says nothing about truthiness)
       ('inst', cls_matcher, bool)   isinstance(expr, <class expr matching cls_matcher>) is bool
    """

    def __init__(self, items, evaluators=()):
        self.items = items
        self.evaluators = list(evaluators)   # functions expr -> True / False / None, tried first

    def _lookup(self, x, kinds):
        for m, v in self.items:
            k = v[0] if isinstance(v, tuple) else v
            if k in kinds and m(x):
                return v
        return None

    def truth(self, x):
        for ev in self.evaluators:
            v = ev(x)
            if v is not None:
                return v
        if isinstance(x, ast.UnaryOp) and isinstance(x.op, ast.Not):
            v = self.truth(x.operand)
            return None if v is None else (not v)
        if isinstance(x, ast.BoolOp):
            vs = [self.truth(v) for v in x.values]
            if isinstance(x.op, ast.And):
                if any(v is False for v in vs):
                    return False
                return True if all(v is True for v in vs) else None
            if any(v is True for v in vs):
                return True
            return False if all(v is False for v in vs) else None
        nt = none_test(x)
        if nt is not None and not isinstance(x, (ast.Name, ast.Attribute, ast.Call)):
            operand, notnone_label = nt
            v = self._lookup(operand, ("none", "some", "T"))
            if v is None:
                return None
            is_none = (v == "none")
            # the test is true on `notnone_label`: e.g. `x is not None` -> label 'T' means not None
            return (not is_none) if notnone_label == "T" else is_none
        if isinstance(x, ast.Compare) and len(x.ops) == 1 and isinstance(x.left, ast.Call) and isinstance(x.left.func, ast.Name) and x.left.func.id == "len" \
                and len(x.left.args) == 1 and isinstance(x.comparators[0], ast.Constant) and x.comparators[0].value in (0, 1):
            t = self.truth(x.left.args[0])
            if t is None:
                return None
            op, c = x.ops[0], x.comparators[0].value
            nonempty = {(ast.Gt, 0): True, (ast.GtE, 1): True, (ast.NotEq, 0): True, (ast.Eq, 0): False, (ast.Lt, 1): False, (ast.LtE, 0): False}.get((type(op), c))
            if nonempty is None:
                return None
            return t if nonempty else (not t)
        if isinstance(x, ast.Call) and isinstance(x.func, ast.Name) and x.func.id == "bool" and len(x.args) == 1:
            return self.truth(x.args[0])
        if isinstance(x, ast.Call) and isinstance(x.func, ast.Name) and x.func.id == "isinstance" and len(x.args) == 2:
            for m, v in self.items:
                if isinstance(v, tuple) and v[0] == "inst" and m(x.args[0]) and v[1](x.args[1]):
                    return v[2]
            return None
        v = self._lookup(x, ("T", "F", "none"))
        if v == "T":
            return True
        if v in ("F", "none"):
            return False
        return None

    def edge_ok(self):
        """Edge filter for CFG searches.  A test whose *subject* is an atom of the scenario but whose form cannot be
        evaluated (say `reuse is True` when only the truthiness of `reuse` is fixed, or `type(x) is int` where the rule
        knows `isinstance(x, int)`) keeps both branches and is remembered: a *witness* path that runs through such a test
        proves nothing, see guard()."""
        und = self.undecided = getattr(self, "undecided", {})

        def ok(n, m, label):
            if n.kind == "test" and label in ("T", "F") and n.ast is not None:
                v = self.truth(n.ast)
                if v is None:
                    subj = _subject(n.ast)
                    if subj is not None and any(mt(subj) for mt, _ in self.items):
                        und[id(n)] = n
                    return True
                return v == (label == "T")
            return True
        return ok

    def guard(self, path):
        """A violation witness that passes a test on a scenario atom which could not be evaluated is not a witness:
        refuse (AnalysisError) rather than alarm on what may be a behaviour-preserving rewrite of the condition."""
        if path:
            for n in path:
                if id(n) in getattr(self, "undecided", {}):
                    raise AnalysisError(f"scenario: `{norm(n.ast)[:70]}` tests an atom of the scenario in a form this rule cannot evaluate")
        return path

    def find(self, g, src, dst, **kw):
        """find_path under this scenario; the result is meant as a *violation witness* (guarded)."""
        return self.guard(g.find_path(src, dst, edge_ok=self.edge_ok(), **kw))

    def escape(self, g, src, through, **kw):
        """escape_path under this scenario; the result is meant as a *violation witness* (guarded)."""
        return self.guard(g.escape_path(src, through, edge_ok=self.edge_ok(), **kw))


def _subject(x):
    """The expression a test is about: `not S`, `S is None`, `S == c`, `len(S) > 0`, `isinstance(S, C)`, `S in xs` -> S."""
    while isinstance(x, ast.UnaryOp) and isinstance(x.op, ast.Not):
        x = x.operand
    if isinstance(x, ast.Compare):
        x = x.left
    if isinstance(x, ast.Call) and isinstance(x.func, ast.Name) and x.func.id in ("len", "bool", "isinstance", "type", "callable") and x.args:
        x = x.args[0]
    if isinstance(x, (ast.Name, ast.Attribute, ast.Call, ast.Subscript)):
        return x
    return None


def txt(s):
    return lambda x: norm(x) == s


def name(s):
    return lambda x: isinstance(x, ast.Name) and x.id == s


def attr_of_self(func, attr):
    selfn = func.params[0] if func.params else None
    return lambda x: isinstance(x, ast.Attribute) and x.attr == attr and isinstance(x.value, ast.Name) and x.value.id == selfn


def objs(e, func, objset):
    return lambda x: isinstance(x, (ast.Name, ast.Attribute)) and bool(e.objs(func, x) & objset)


def call_to(e, quals):
    qs = set(quals)
    return lambda x: isinstance(x, ast.Call) and bool(e.callees_of(x) & qs)


def _targets(g, pred):
    return [n for n in g.nodes if pred(n)]


def _check_atoms(e, func, facts, evaluators, scenario):
    """Every atom of the scenario must occur in some test of the function: otherwise the scenario does not constrain the
    function at all and a `never` obligation would be an unfounded alarm -- refuse instead."""
    g = e.cfg(func)
    tests = [n.ast for n in g.nodes if n.kind == "test" and n.ast is not None]
    subs = [x for t in tests for x in ast.walk(t)]
    for m, v in facts:
        if not any(m(x) for x in subs):
            raise AnalysisError(f"{func.short}: scenario `{scenario}`: an atom of the scenario is not tested by the function any more")
    for ev in evaluators:
        if not any(ev(x) is not None for x in subs):
            raise AnalysisError(f"{func.short}: scenario `{scenario}`: a condition of the scenario is not tested by the function any more")


def must(e, R, rule, func, scenario, facts, target_pred, what, why, evaluators=()):
    g = e.cfg(func)
    _check_atoms(e, func, facts, evaluators, scenario)
    F = Facts(facts, evaluators)
    tg = set(_targets(g, target_pred))
    reach = g.find_path(g.entry, lambda n: n in tg, use_exc=False, edge_ok=F.edge_ok()) if tg else None
    esc = F.escape(g, g.entry, lambda n: n in tg, use_exc=False) if tg else None
    ok = bool(tg) and reach is not None and esc is None
    R.check(ok, rule, f"{func.short}: when {scenario}, {what} on every path", func.short, f"[{scenario}] must: {what}",
            f"when {scenario}, {func.short} can finish without {what}" + ("" if tg else " (no such operation left)") + ": " + why,
            e.loc(func, (esc[-1].ast if esc and esc[-1].ast is not None else func.node)) if not ok else None,
            g.fmt_path(esc) if esc else None)
    return ok


def never(e, R, rule, func, scenario, facts, target_pred, what, why, avoid=(), evaluators=()):
    g = e.cfg(func)
    _check_atoms(e, func, facts, evaluators, scenario)
    F = Facts(facts, evaluators)
    tg = set(_targets(g, target_pred))
    p = F.find(g, g.entry, lambda n: n in tg, avoid=avoid, use_exc=False) if tg else None
    R.check(p is None, rule, f"{func.short}: when {scenario}, never {what}", func.short, f"[{scenario}] never: {what}",
            f"when {scenario}, {func.short} can reach {what}: " + why, e.loc(func, p[-1].ast if p and p[-1].ast is not None else func.node) if p else None,
            g.fmt_path(p) if p else None)
    return p is None


def _calls_attr_on(e, func, attrs, pred_recv=None):
    def p(n):
        for c in calls_in(n):
            if isinstance(c.func, ast.Attribute) and c.func.attr in attrs and (pred_recv is None or pred_recv(c.func.value)):
                return True
        return False
    return p


# ---------------------------------------------------------------- R-SCN-WAKEPRIM
def r_scn_wakeprim(e, R):
    """The wake-up primitive itself: every other wake rule treats `wakeup()` as 'the manager will run again'."""
    a = e.anchors
    wm, cm, xm = a.wake_method, a.wake_clear_method, a.wake_close_method
    cls = e.prog.classes[a.wakeup_cls]
    # the closed flag: the attribute of self tested in all three methods
    def tested_attrs(f):
        out = set()
        g = e.cfg(f)
        for n in g.nodes:
            if n.kind == "test" and n.ast is not None:
                x = n.ast.operand if isinstance(n.ast, ast.UnaryOp) else n.ast
                if isinstance(x, ast.Attribute) and isinstance(x.value, ast.Name) and x.value.id == f.params[0]:
                    out.add(x.attr)
        return out
    common = tested_attrs(wm) & tested_attrs(cm) & tested_attrs(xm)
    if len(common) != 1:
        raise AnalysisError(f"wake-up primitive: closed flag not identified ({sorted(common)})")
    flag = next(iter(common))
    R.info["wakeup_closed_flag"] = flag
    conn = lambda f: (lambda x: any(v[0] == "obj" and v[2] == "ext:Connection" for v in e.pt.ev(f, x)))
    send = lambda f: _calls_attr_on(e, f, ("send_bytes", "send"), conn(f))
    recv = lambda f: _calls_attr_on(e, f, ("recv_bytes", "recv"), conn(f))
    poll = lambda f: (lambda x: isinstance(x, ast.Call) and isinstance(x.func, ast.Attribute) and x.func.attr == "poll")
    closec = lambda f: _calls_attr_on(e, f, ("close",), conn(f))
    why_w = "every wake-up obligation of the executor (submit, shutdown, GC callback, feeder error, at-exit) relies on this write reaching the manager's wait set"
    must(e, R, "R-SCN-WAKEPRIM", wm, "the pipe is open", [(attr_of_self(wm, flag), "F")], send(wm), "writes to the wake-up pipe", why_w)
    never(e, R, "R-SCN-WAKEPRIM", wm, "the pipe is closed", [(attr_of_self(wm, flag), "T")], send(wm), "a write to the wake-up pipe",
          "writing to a closed pipe raises in submit()/shutdown() after the manager has exited")
    must(e, R, "R-SCN-WAKEPRIM", cm, "the pipe is open and readable", [(attr_of_self(cm, flag), "F"), (poll(cm), "T")], recv(cm), "drains the wake-up pipe",
         "an undrained wake-up pipe keeps the manager's wait returning at once (busy loop) or fills up and blocks wakeup()")
    never(e, R, "R-SCN-WAKEPRIM", cm, "the pipe is open and empty", [(attr_of_self(cm, flag), "F"), (poll(cm), "F")], recv(cm), "a blocking read of the wake-up pipe",
          "the manager blocks in clear() on an empty pipe")
    never(e, R, "R-SCN-WAKEPRIM", cm, "the pipe is closed", [(attr_of_self(cm, flag), "T")], lambda n: recv(cm)(n) or any(poll(cm)(c) for c in calls_in(n)),
          "a poll/read of the closed pipe", "polling a closed connection raises in the manager thread")
    must(e, R, "R-SCN-WAKEPRIM", xm, "the pipe is open", [(attr_of_self(xm, flag), "F")], closec(xm), "closes the pipe ends", "both descriptors of the wake-up pipe leak per executor")
    never(e, R, "R-SCN-WAKEPRIM", xm, "the pipe is already closed", [(attr_of_self(xm, flag), "T")], closec(xm), "a second close", "double close of the connection raises")
    g = e.cfg(xm)
    setn = lambda n: n.kind == "stmt" and isinstance(n.ast, ast.Assign) and attr_of_self(xm, flag)(n.ast.targets[0]) and isinstance(n.ast.value, ast.Constant) \
        and n.ast.value.value is True
    must(e, R, "R-SCN-WAKEPRIM", xm, "the pipe is open", [(attr_of_self(xm, flag), "F")], setn, f"records self.{flag} = True",
         "later wakeup()/clear() calls use the closed connection")
    ini = cls.methods.get("__init__")
    ok = ini is not None and any(isinstance(n, ast.Assign) and attr_of_self(ini, flag)(n.targets[0]) and isinstance(n.value, ast.Constant) and n.value.value is False
                                 for n in func_nodes(ini))
    R.check(ok, "R-SCN-WAKEPRIM", "a new wake-up pipe starts open", f"{cls.name}.__init__", f"self.{flag} = False", "a new wake-up object is born closed: no wake-up is ever delivered",
            e.loc(ini, ini.node) if ini else None)
    R.floor("R-SCN-WAKEPRIM", 9)


# ---------------------------------------------------------------- R-SCN-WORKER
def r_scn_worker(e, R):
    a = e.anchors
    w = a.worker_main
    g = e.cfg(w)
    # the task variable: assigned from call_queue.get(...)
    tv = None
    for n in func_nodes(w):
        if isinstance(n, ast.Assign) and isinstance(n.targets[0], ast.Name) and isinstance(n.value, ast.Call) and e.receiver_objs(w, n.value, ("get",)) & a.callq:
            tv = n.targets[0].id
    if tv is None:
        raise AnalysisError("worker: task variable not found")
    # the pid announcement: result_queue.put(<int local>) with a Name argument, vs. results (calls constructing items)
    def announce(n):
        for c in calls_in(n):
            if e.receiver_objs(w, c, ("put",)) & a.resq and len(c.args) == 1 and isinstance(c.args[0], ast.Name):
                return True
        return False

    def runs_task(n):
        return any(isinstance(c.func, ast.Name) and c.func.id == tv for c in calls_in(n))

    def returns(n):
        return n.kind == "stmt" and isinstance(n.ast, ast.Return)
    why = "the sentinel / idle-timeout protocol: a worker leaves exactly when it holds no task, after telling the manager"
    must(e, R, "R-SCN-WORKER", w, f"`{tv}` is None (sentinel or idle timeout)", [(name(tv), "none")], announce, "announces its pid on the result queue", why)
    must(e, R, "R-SCN-WORKER", w, f"`{tv}` is None (sentinel or idle timeout)", [(name(tv), "none")], returns, "returns", why)
    never(e, R, "R-SCN-WORKER", w, f"`{tv}` is None (sentinel or idle timeout)", [(name(tv), "none")], runs_task, f"the call `{tv}()`", "None is called: the worker crashes and the pool breaks")
    must(e, R, "R-SCN-WORKER", w, f"`{tv}` is a task", [(name(tv), "some")], runs_task, f"runs the task (`{tv}()`)", "a worker that received a task leaves without running it: the future never resolves")
    drops = lambda n: n.kind == "stmt" and isinstance(n.ast, ast.Delete) and any(isinstance(t, ast.Name) and t.id == tv for t in n.ast.targets)
    never(e, R, "R-SCN-WORKER", w, f"`{tv}` is a task it still holds", [(name(tv), "some")], announce, "the exit announcement",
          "a worker announces its exit while holding a task", avoid=drops)
    # the at-exit hook of nested executors runs on the way out
    hook = a.atexit_hook
    if hook is not None:
        must(e, R, "R-SCN-WORKER", w, f"`{tv}` is None (sentinel or idle timeout)", [(name(tv), "none")],
             lambda n: any(hook.qualname in e.callees_of(c) for c in calls_in(n)), f"notifies nested executors ({hook.short})",
             "an executor nested in this worker is not told that the process is leaving and waits for it")
    # idle timeout: on try-lock success the task variable is set to None before the leave test
    hs = [n for n in g.nodes if n.kind == "except" and n.ast is not None and n.ast.type is not None and norm(n.ast.type).endswith("Empty")]
    if not hs:
        raise AnalysisError("worker: idle-timeout handler (queue.Empty) not found")
    leave_tests = [t for t in g.nodes if t.kind == "test" and none_test(t.ast) and isinstance(none_test(t.ast)[0], ast.Name) and none_test(t.ast)[0].id == tv
                   and not isinstance(t.ast, ast.Name)]
    trylock = lambda x: isinstance(x, ast.Call) and isinstance(x.func, ast.Attribute) and x.func.attr == "acquire" and bool(e.objs(w, x.func.value) & a.pml)
    for h in hs:
        sets_none = lambda n: n.kind == "stmt" and isinstance(n.ast, ast.Assign) and any(isinstance(t, ast.Name) and t.id == tv for t in n.ast.targets) \
            and isinstance(n.ast.value, ast.Constant) and n.ast.value.value is None
        FT = Facts([(trylock, "T")])
        # only leave tests *outside* the try whose handler this is count (the in-try test is not reachable from the handler)
        esc = FT.find(g, h, lambda n: n in leave_tests, avoid=sets_none, use_exc=False)
        reach = g.find_path(h, sets_none, use_exc=False, edge_ok=FT.edge_ok())
        R.check(esc is None and reach is not None, "R-SCN-WORKER", f"{w.short}: after an idle timeout with the management lock free, `{tv} = None` precedes the leave test",
                w.short, f"{tv} = None", f"after an idle timeout the leave test reads a stale / unbound `{tv}`: the worker crashes (the pool breaks) or re-runs "
                "its previous task instead of leaving", e.loc(w, h.ast), g.fmt_path(esc) if esc else None)
        p = Facts([(trylock, "F")]).find(g, h, lambda n: n in leave_tests or announce(n), use_exc=False, avoid=lambda n: n.kind == "join" and n.tag == "loop-head")
        R.check(p is None, "R-SCN-WORKER", f"{w.short}: when the management lock is busy (workers are being spawned) the worker goes back to waiting", w.short,
                "continue", "a worker leaves on idle timeout while the parent is spawning: the count of live workers is wrong when the spawn loop ends",
                e.loc(w, h.ast), g.fmt_path(p) if p else None)
    R.floor("R-SCN-WORKER", 7)


# ---------------------------------------------------------------- R-SCN-MANAGER
def _tuple_targets(run):
    """(result var, broken var, exc var) of `a, b, c = self.wait...()` in the manager loop."""
    for n in func_nodes(run):
        if isinstance(n, ast.Assign) and isinstance(n.targets[0], ast.Tuple) and len(n.targets[0].elts) == 3 and isinstance(n.value, ast.Call) \
                and all(isinstance(t, ast.Name) for t in n.targets[0].elts):
            return [t.id for t in n.targets[0].elts], n.value
    raise AnalysisError("manager loop: `result, is_broken, exc = wait()` not found")


def r_scn_manager(e, R):
    from .shutdown import shutting_down_func, join_internals_func
    from .broken import broken_routine
    a = e.anchors
    run = a.manager_run
    g = e.cfg(run)
    (rv, bv, ev_), waitcall = _tuple_targets(run)
    sdf = shutting_down_func(e)[0]
    ji = join_internals_func(e)
    tb = broken_routine(e)
    sd_call = call_to(e, [sdf.qualname])
    calls = lambda quals: (lambda n: any(e.callees_of(c) & set(quals) for c in calls_in(n)))
    # who consumes the result item
    consumers = {q for c in func_nodes(run) if isinstance(c, ast.Call) and any(isinstance(x, ast.Name) and x.id == rv for x in c.args) for q in e.callees_of(c)}
    if not consumers:
        raise AnalysisError("manager loop: the consumer of the result item not found")
    returns = lambda n: n.kind == "stmt" and isinstance(n.ast, ast.Return)
    base = [(name(bv), "F")]
    must(e, R, "R-SCN-MANAGER", run, "a result item arrived and the pool is not broken", base + [(name(rv), "some")], calls(consumers),
         "hands the item to the result handler", "a result (or an exit announcement) is read from the pipe and dropped: its future never resolves")
    never(e, R, "R-SCN-MANAGER", run, "the wait returned without an item (pure wake-up)", base + [(name(rv), "none")], calls(consumers),
          "the result handler", "the handler dereferences None and the manager thread dies")
    must(e, R, "R-SCN-MANAGER", run, "the pool is broken", [(name(bv), "T")], calls([tb.qualname]), "fails everything (terminate_broken)",
         "a detected crash is ignored: futures stay pending")
    never(e, R, "R-SCN-MANAGER", run, "the pool is healthy and not shutting down", base + [(sd_call, "F")], lambda n: returns(n) or calls([ji.qualname])(n) or n is g.exit,
          "its exit (join of the internals / return)", "the manager thread stops while the executor is in use: every later submit hangs")
    never(e, R, "R-SCN-MANAGER", run, "the pool is healthy", base, calls([tb.qualname]), "terminate_broken", "a healthy pool is flagged broken")
    pend = lambda x: isinstance(x, (ast.Attribute, ast.Name)) and bool(e.objs(run, x) & a.pending)
    must(e, R, "R-SCN-MANAGER", run, "the executor is shutting down and nothing is pending", base + [(name(rv), "none"), (sd_call, "T"), (pend, "F")], calls([ji.qualname]),
         "joins the internals (queues closed, workers joined)", "the manager thread never exits after shutdown: shutdown(wait=True) hangs / resources leak")
    never(e, R, "R-SCN-MANAGER", run, "the executor is shutting down but work is still pending", base + [(name(rv), "none"), (sd_call, "T"), (pend, "T")],
          lambda n: calls([ji.qualname])(n) or returns(n) or n is g.exit, "its exit", "a graceful shutdown abandons the pending futures")
    # fail-everything loops: `while pending:` must run while the table is non-empty
    res = resolve_pred(e)
    for f in (tb,) + tuple(e.prog.funcs[q] for q in a.manager_funcs if e.prog.funcs[q] is not tb):
        fg = e.cfg(f)
        loops = [n for n in func_nodes(f) if isinstance(n, ast.While) and any(isinstance(x, (ast.Attribute, ast.Name)) and e.objs(f, x) & a.pending for x in ast.walk(n.test))
                 and any(isinstance(c, ast.Call) and res(f, c) for c in ast.walk(n))]
        if not loops:
            continue
        pf = lambda x, f=f: isinstance(x, (ast.Attribute, ast.Name)) and bool(e.objs(f, x) & a.pending)
        resn = lambda n, f=f: node_has_effect(e, f, n, res)
        flags = a.flags_objs
        kf = lambda x, f=f: isinstance(x, ast.Attribute) and x.attr == "kill_workers" and bool(set(e.pt.ev(f, x.value)) & flags)
        has_kf = any(kf(x) for n_ in fg.nodes if n_.kind == "test" and n_.ast is not None for x in ast.walk(n_.ast))
        must(e, R, "R-SCN-MANAGER", f, "futures are pending" + (" and the kill flag is set" if has_kf else ""), [(pf, "T")] + ([(kf, "T")] if has_kf else []),
             resn, "resolves pending futures", "the fail-everything loop is skipped while futures are pending: they are never resolved")
    R.floor("R-SCN-MANAGER", 8)


# ---------------------------------------------------------------- R-SCN-RESULT (result handler)
def r_scn_result(e, R):
    from .shutdown import pid_branch_func
    a = e.anchors
    f = pid_branch_func(e)[0]
    g = e.cfg(f)
    p = f.params[1] if len(f.params) > 1 else None
    if p is None:
        raise AnalysisError("result handler: parameter not found")
    res = resolve_pred(e)
    is_int = lambda x: isinstance(x, ast.Name) and x.id == "int"
    procpop = lambda n: any(e.receiver_objs(f, c, ("pop",)) & a.processes for c in calls_in(n))
    pendpop = lambda n: any(e.receiver_objs(f, c, ("pop",)) & a.pending for c in calls_in(n))
    resn = lambda n: node_has_effect(e, f, n, res)
    runrem = lambda n: any(e.receiver_objs(f, c, ("remove",)) & a.running for c in calls_in(n))
    must(e, R, "R-SCN-RESULT", f, "the item is a pid (exit announcement)", [(name(p), ("inst", is_int, True))], procpop, "removes that worker from the table",
         "an exit announcement is treated as a result: AttributeError in the manager thread")
    never(e, R, "R-SCN-RESULT", f, "the item is a pid (exit announcement)", [(name(p), ("inst", is_int, True))], lambda n: pendpop(n) or resn(n),
          "the resolution of a future", "an exit announcement resolves a future")
    must(e, R, "R-SCN-RESULT", f, "the item is a result", [(name(p), ("inst", is_int, False))], pendpop, "takes the work item out of the pending table",
         "a result is dropped: the future never resolves")
    # the popped item var
    wv = None
    for n in func_nodes(f):
        if isinstance(n, ast.Assign) and isinstance(n.targets[0], ast.Name) and isinstance(n.value, ast.Call) and e.receiver_objs(f, n.value, ("pop",)) & a.pending:
            wv = n.targets[0].id
    if wv is None:
        raise AnalysisError("result handler: popped work item variable not found")
    must(e, R, "R-SCN-RESULT", f, "the item is a result whose work item is still pending", [(name(p), ("inst", is_int, False)), (name(wv), "some")], resn,
         "resolves the future", "the result of a pending task is dropped")
    must(e, R, "R-SCN-RESULT", f, "the item is a result whose work item is still pending", [(name(p), ("inst", is_int, False)), (name(wv), "some")], runrem,
         "removes the id from the running list", "finished ids accumulate in the running list: the respawn guard (pending - running) and the feeder hook go wrong")
    # failed or succeeded?  Decided by `<item>.exception is not None`: a truthiness test runs the user's __bool__/__len__ on the manager
    # thread and sends an exception whose truth value is False down the *result* branch (the future returns None)
    rcalls = [n for n in g.nodes if resn(n)]
    disp = [t for t in g.nodes if t.kind == "test" and any(g.on_branch(r_, t, "T") for r_ in rcalls) and any(g.on_branch(r_, t, "F") for r_ in rcalls)]
    for t in disp:
        x = t.ast.operand if isinstance(t.ast, ast.UnaryOp) and isinstance(t.ast.op, ast.Not) else t.ast
        by_truth = isinstance(x, (ast.Attribute, ast.Name))
        R.check(not by_truth, "R-SCN-RESULT", f"{f.short}: failure vs success is decided by identity (`is not None`), not by the truth value of the user's exception",
                f.short, norm(t.ast), f"`if {norm(t.ast)}:` asks the task's exception object for its truth value: an exception class defining __bool__ / __len__ "
                "that is falsy is delivered as the *result* None (the future succeeds), and a raising __bool__ kills the manager thread", e.loc(f, t.ast))
    if not disp:
        raise AnalysisError("result handler: the test choosing between set_exception and set_result is not recognised")
    never(e, R, "R-SCN-RESULT", f, "the work item was already failed by someone else", [(name(p), ("inst", is_int, False)), (name(wv), "none")], resn,
          "a resolution through None", "AttributeError in the manager thread")
    R.floor("R-SCN-RESULT", 6)


# ---------------------------------------------------------------- R-SCN-FEEDER
def r_scn_feeder(e, R):
    a = e.anchors
    hooks = [e.prog.funcs[q] for q in a.feeder_onerror if q in e.prog.funcs and q.startswith(PE + ":")]
    if len(hooks) != 1:
        raise AnalysisError(f"the executor's feeder error hook is not unique: {[h.short for h in hooks]}")
    f = hooks[0]
    res = resolve_pred(e)
    wake = wake_pred(e)
    objp = f.params[2] if len(f.params) > 2 else None
    if objp is None:
        raise AnalysisError("feeder error hook: parameters not recognised")
    is_ci = lambda x: any(v[0] == "class" and v[1].endswith("_CallItem") or (v[0] == "class" and "CallItem" in v[1]) for v in e.pt.ev(f, x))
    wv = None
    for n in func_nodes(f):
        if isinstance(n, ast.Assign) and isinstance(n.targets[0], ast.Name) and isinstance(n.value, ast.Call) and e.receiver_objs(f, n.value, ("pop",)) & a.pending:
            wv = n.targets[0].id
    if wv is None:
        raise AnalysisError("feeder error hook: popped work item not found")
    resn = lambda n: node_has_effect(e, f, n, res)
    waken = lambda n: node_has_effect(e, f, n, wake)
    mname = f.qualname.split(".")[-1]
    deleg = lambda n: any(isinstance(c.func, ast.Attribute) and c.func.attr == mname and isinstance(c.func.value, ast.Call) and norm(c.func.value.func) == "super"
                          for c in calls_in(n))
    must(e, R, "R-SCN-FEEDER", f, "a task could not be serialised and is still pending", [(name(objp), ("inst", is_ci, True)), (name(wv), "some")], resn,
         "fails that task's future", "a task whose arguments cannot be pickled hangs forever")
    must(e, R, "R-SCN-FEEDER", f, "a task could not be serialised", [(name(objp), ("inst", is_ci, True))], waken, "wakes the manager",
         "the manager is not told that the running list changed")
    must(e, R, "R-SCN-FEEDER", f, "the failing object is not a task (e.g. the shutdown sentinel)", [(name(objp), ("inst", is_ci, False))], deleg,
         "delegates to the base class hook", "other feeder errors are swallowed silently")
    never(e, R, "R-SCN-FEEDER", f, "the failing object is not a task", [(name(objp), ("inst", is_ci, False))], resn, "the resolution of a future",
          "a sentinel is treated as a task: AttributeError kills the feeder thread")
    R.floor("R-SCN-FEEDER", 4)


# ---------------------------------------------------------------- R-SCN-START (manager start / at-exit registration / submit gate)
def r_scn_start(e, R):
    a = e.anchors
    # the function that starts the manager thread
    starters = [f for f in (e.prog.funcs[q] for q in a.executor_funcs)
                if any(isinstance(c, ast.Call) and isinstance(c.func, ast.Attribute) and c.func.attr == "start" and e.objs(f, c.func.value) & a.manager_objs for c in func_nodes(f))]
    if len(starters) != 1:
        raise AnalysisError(f"the function starting the manager thread is not unique: {[f.short for f in starters]}")
    sf = starters[0]
    mf = lambda x: isinstance(x, ast.Attribute) and isinstance(x.value, ast.Name) and x.value.id == sf.params[0] and \
        bool(set(e.pt.ev(sf, x)) & a.manager_objs)
    startn = lambda n: any(isinstance(c.func, ast.Attribute) and c.func.attr == "start" and e.objs(sf, c.func.value) & a.manager_objs for c in calls_in(n))
    must(e, R, "R-SCN-START", sf, "no manager thread exists yet", [(mf, "none")], startn, "creates and starts the manager thread", "the first submit never starts a manager: every future hangs")
    never(e, R, "R-SCN-START", sf, "a manager thread already exists", [(mf, "some")], startn, "a second start", "two manager threads consume the same queues")
    # at-exit registration
    hook = a.atexit_hook
    if hook is not None:
        reg = lambda n: any(any(isinstance(x, ast.Name) and hook.qualname in {v[1] for v in e.pt.ev(sf, x) if v[0] == "func"} for x in list(c.args) + [k.value for k in c.keywords])
                            for c in calls_in(n))
        gl = [t for t in e.cfg(sf).nodes if t.kind == "test" and none_test(t.ast) and isinstance(none_test(t.ast)[0], ast.Name) and none_test(t.ast)[0].id in sf.globals_decl]
        if not gl:
            raise AnalysisError("manager start: the registration guard of the at-exit hook not found")
        gname = none_test(gl[0].ast)[0].id
        must(e, R, "R-SCN-START", sf, "no manager exists and the at-exit hook is not registered yet", [(mf, "none"), (name(gname), "none")], reg,
             "registers the at-exit hook", "at interpreter exit nobody wakes and joins the manager threads: the interpreter hangs / loses queued work")
    # submit gate polarity
    sub = a.submit
    flags = a.flags_objs
    fl = lambda attr: (lambda x: isinstance(x, ast.Attribute) and x.attr == attr and bool(set(e.pt.ev(sub, x.value)) & flags))
    glob_sd = [t for t in e.cfg(sub).nodes if t.kind == "test" and isinstance(t.ast, ast.Name) and t.ast.id not in sub.locals]
    raises = lambda n: n.kind == "stmt" and isinstance(n.ast, ast.Raise)
    ins = lambda n: n.kind == "stmt" and isinstance(n.ast, ast.Assign) and isinstance(n.ast.targets[0], ast.Subscript) and bool(e.objs(sub, n.ast.targets[0].value) & a.pending)
    healthy = [(fl("broken"), "none"), (fl("shutdown"), "F")] + [(name(t.ast.id), "F") for t in glob_sd]
    never(e, R, "R-SCN-START", sub, "the executor is healthy and the interpreter is running", healthy, raises, "a refusal (raise)", "a healthy executor refuses work")
    must(e, R, "R-SCN-START", sub, "the executor is healthy and the interpreter is running", healthy, ins, "registers the work item as pending", "an accepted task is never queued")
    for t in glob_sd:
        must(e, R, "R-SCN-START", sub, f"`{t.ast.id}` is set (interpreter shutting down)", [(fl("broken"), "none"), (fl("shutdown"), "F"), (name(t.ast.id), "T")], raises,
             "refuses the task", "a task accepted during interpreter shutdown is never run and its future never resolves")
    must(e, R, "R-SCN-START", sub, "the executor was shut down", [(fl("broken"), "none"), (fl("shutdown"), "T")], raises, "refuses the task",
         "a task accepted after shutdown is never run")
    must(e, R, "R-SCN-START", sub, "the executor is broken", [(fl("broken"), "some")], raises, "refuses the task", "a task accepted by a broken pool is never run")
    R.floor("R-SCN-START", 6)
