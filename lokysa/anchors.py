"""Semantic anchors: private code is located by role through the resolved
program, not by name.  Public / protocol names (ProcessPoolExecutor, submit,
shutdown, map, get_reusable_executor, Future, the tracker's main, ...) are
used as names.  An anchor that resolves to nothing (or ambiguously where
uniqueness is required) is an analysis error -- never a pass.
"""
import ast

from .model import AnalysisError, func_nodes, norm
from .pointsto import NONE, UNKNOWN

PE = "loky.process_executor"
EXECUTOR = f"{PE}:ProcessPoolExecutor"
FUTURE = "loky._base:Future"


def lazy(fn):
    name = "_" + fn.__name__

    def get(self):
        if not hasattr(self, name):
            setattr(self, name, fn(self))
        return getattr(self, name)
    get.__name__ = fn.__name__
    return property(get)


class Anchors:
    def __init__(self, engine):
        self.e = engine
        self.pt = engine.pt
        self.prog = engine.prog

    # ------------------------------------------------------------ utilities
    def need(self, val, what):
        if not val:
            raise AnalysisError(f"anchor not resolved: {what}")
        return val

    def unique(self, vals, what):
        vals = list(vals)
        if len(vals) != 1:
            raise AnalysisError(f"anchor not unique: {what}: {[str(v)[:60] for v in vals]}")
        return vals[0]

    @lazy
    def all_objs(self):
        out = set()
        for s in self.pt.pts.values():
            for v in s:
                if v[0] in ("obj", "cont", "tuple"):
                    out.add(v)
        return out

    def objs_of_class(self, baseq):
        return {o for o in self.all_objs if o[0] == "obj" and self.pt.is_subclass(o[2], baseq)}

    def fields_of(self, objs):
        """{attr: set(values)} over the given objects."""
        out = {}
        for o in objs:
            for a in self.pt.fields.get(o, ()):
                out.setdefault(a, set()).update(self.pt.get(("F", o, a)))
        return out

    def method(self, clsq, name):
        m = self.pt.lookup_method(clsq, name)
        if m is None:
            raise AnalysisError(f"anchor vanished: method {name} of {clsq}")
        return m

    def alloc_func(self, obj):
        return self.pt.site_info.get(obj[1], ("?", "?"))[0]

    # --------------------------------------------------------------- classes
    @lazy
    def executor_cls(self):
        return self.prog.cls(EXECUTOR).qualname

    @lazy
    def executor_objs(self):
        return self.need(self.objs_of_class(EXECUTOR), "executor instances")

    @lazy
    def executor_funcs(self):
        """Methods of the executor class hierarchy."""
        out = set()
        for cq, c in self.prog.classes.items():
            if self.pt.is_subclass(cq, EXECUTOR):
                out |= {m.qualname for m in c.methods.values()}
        return out

    @lazy
    def submit(self):
        return self.method(EXECUTOR, "submit")

    @lazy
    def shutdown(self):
        return self.method(EXECUTOR, "shutdown")

    @lazy
    def init(self):
        return self.method(EXECUTOR, "__init__")

    @lazy
    def manager_cls(self):
        cands = set()
        for o in self.all_objs:
            if o[0] == "obj" and o[2] in self.prog.classes and self.pt.has_ext_base(o[2], "Thread") \
                    and self.alloc_func(o) in self.executor_funcs:
                cands.add(o[2])
        return self.unique(cands, "manager thread class (Thread subclass instantiated by the executor)")

    @lazy
    def manager_objs(self):
        return self.objs_of_class(self.manager_cls)

    @lazy
    def manager_run(self):
        return self.method(self.manager_cls, "run")

    @lazy
    def manager_funcs(self):
        """Functions reachable synchronously from the manager's run."""
        return self.e.reach([self.manager_run.qualname])

    @lazy
    def manager_methods(self):
        return {m.qualname for m in self.prog.classes[self.manager_cls].methods.values()}

    # ------------------------------------------------------- worker / spawn
    @lazy
    def spawn_sites(self):
        """(Func, Call) constructing a worker process: calls with a deferred
        'process' edge inside executor methods."""
        out = []
        for cid, s in self.pt.calls.items():
            if any(k == "process" for _, k in s):
                f, n = self.pt.call_node[cid]
                if f.qualname in self.executor_funcs:
                    out.append((f, n))
        return self.need(out, "worker spawn sites")

    @lazy
    def worker_main(self):
        qs = set()
        for f, n in self.spawn_sites:
            qs |= {q for q, k in self.pt.calls[id(n)] if k == "process"}
        return self.prog.func(self.unique(qs, "worker main function (target= of the spawn)"))

    @lazy
    def spawn_func(self):
        return self.prog.func(self.unique({f.qualname for f, _ in self.spawn_sites}, "spawn routine"))

    @lazy
    def process_objs(self):
        out = set()
        for f, n in self.spawn_sites:
            out |= {v for v in self.pt.ev(f, n) if v[0] == "obj"}
        return self.need(out, "worker process objects")

    @lazy
    def worker_funcs(self):
        return self.e.reach([self.worker_main.qualname])

    # ------------------------------------------------------- executor state
    @lazy
    def exec_fields(self):
        return self.fields_of(self.executor_objs)

    def _exec_field_objs(self, pred, what):
        out = set()
        names = set()
        for a, vals in self.exec_fields.items():
            hit = {v for v in vals if v[0] in ("obj", "cont") and pred(v)}
            if hit:
                out |= hit
                names.add(a)
        self.need(out, what)
        return out, names

    @lazy
    def future_objs(self):
        return self.need(self.objs_of_class(FUTURE), "Future instances")

    @lazy
    def workitem_objs(self):
        out = set()
        for o in self.all_objs:
            if o[0] == "obj" and o[2] in self.prog.classes:
                for a in self.pt.fields.get(o, ()):
                    if self.pt.get(("F", o, a)) & self.future_objs:
                        out.add(o)
        return self.need(out, "work item instances (objects holding a Future)")

    @lazy
    def workitem_cls(self):
        return self.unique({o[2] for o in self.workitem_objs}, "work item class")

    @lazy
    def future_attr(self):
        names = set()
        for o in self.workitem_objs:
            for a in self.pt.fields.get(o, ()):
                if self.pt.get(("F", o, a)) & self.future_objs:
                    names.add(a)
        return self.unique(names, "future attribute of the work item")

    @lazy
    def pending(self):
        objs, names = self._exec_field_objs(
            lambda v: v[0] == "cont" and bool(set(self.pt.get(("F", v, "elem"))) & self.workitem_objs),
            "pending work-item table")
        return objs

    @lazy
    def processes(self):
        objs, names = self._exec_field_objs(
            lambda v: v[0] == "cont" and bool(set(self.pt.get(("F", v, "elem"))) & self.process_objs),
            "worker table")
        self._processes_attr = names
        return objs

    @lazy
    def shutdown_lock(self):
        """The lock guarding submit: subject of the `with` enclosing the
        insertion into the pending table in submit."""
        f = self.submit
        toks = set()
        for n in func_nodes(f):
            if isinstance(n, ast.With):
                for it in n.items:
                    toks |= self.e.lock_token(f, it.context_expr)
                break
        return self.need(toks, "shutdown lock (with-subject in submit)")

    @lazy
    def flags_objs(self):
        """Objects constructed by the executor with the shutdown lock as
        argument, other than queues (the executor's flags)."""
        out = set()
        for o in self.all_objs:
            if o[0] == "obj" and o[2] in self.prog.classes and not self.pt.has_ext_base(o[2]):
                for a in self.pt.fields.get(o, ()):
                    if self.pt.get(("F", o, a)) & self.shutdown_lock and self.alloc_func(o) == self.init.qualname:
                        out.add(o)
        return self.need(out, "executor flags object")

    @lazy
    def flags_cls(self):
        return self.unique({o[2] for o in self.flags_objs}, "flags class")

    @lazy
    def callq(self):
        objs, names = self._exec_field_objs(
            lambda v: v[0] == "obj" and v[2] in self.prog.classes and self.pt.has_ext_base(v[2], "Queue")
            and not self.pt.has_ext_base(v[2], "SimpleQueue"), "call queue")
        return objs

    @lazy
    def resq(self):
        objs, names = self._exec_field_objs(
            lambda v: v[0] == "obj" and v[2] in self.prog.classes and self.pt.has_ext_base(v[2], "SimpleQueue"),
            "result queue")
        return objs

    @lazy
    def work_ids(self):
        objs, names = self._exec_field_objs(lambda v: v[0] == "obj" and v[2] == "ext:queue.Queue", "work-id queue")
        return objs

    @lazy
    def pml(self):
        """Processes management lock: the lock shipped to the worker that is
        also a field of the executor."""
        wm = self.worker_main
        shipped = set()
        for p in wm.params:
            shipped |= {v for v in self.pt.get(("L", wm.qualname, p)) if v[0] == "obj"}
        objs, names = self._exec_field_objs(
            lambda v: v[0] == "obj" and v in shipped and v[2].startswith(("opaque:", "ext:threading"))
            and v not in self.callq and v not in self.resq, "processes management lock")
        return objs

    @lazy
    def exit_locks(self):
        """Per-worker exit locks: lock objects shipped to the worker that are
        not executor fields (allocated in the spawn routine)."""
        wm = self.worker_main
        out = set()
        execvals = set()
        for vals in self.exec_fields.values():
            execvals |= vals
        for p in wm.params:
            for v in self.pt.get(("L", wm.qualname, p)):
                if v[0] == "obj" and v not in execvals and v[2].startswith("opaque:") \
                        and self.alloc_func(v) == self.spawn_func.qualname:
                    out.add(v)
        return self.need(out, "worker exit lock")

    @lazy
    def running(self):
        """List of running work ids: container field of the executor, shared
        with the call queue, that is not the pending table."""
        cq_fields = self.fields_of(self.callq)
        shared = set()
        for vals in cq_fields.values():
            shared |= {v for v in vals if v[0] == "cont"}
        objs, names = self._exec_field_objs(lambda v: v[0] == "cont" and v in shared and v not in self.pending,
                                            "running work-id list")
        return objs

    # ----------------------------------------------------------- wake-up pipe
    @lazy
    def wait_calls(self):
        """The manager's designated blocking wait(...) on connections."""
        out = []
        for q in self.manager_funcs:
            f = self.prog.funcs[q]
            for n in func_nodes(f):
                if isinstance(n, ast.Call) and any(
                        v == ("ext", "multiprocessing.connection.wait") for v in self.pt.ev(f, n.func)):
                    out.append((f, n))
        return self.need(out, "manager's wait() call")

    @lazy
    def wakeup_objs(self):
        """Objects whose reader end is in the manager's wait set and that are
        not queues."""
        out = set()
        for vals in self.exec_fields.values():
            for o in vals:
                if o[0] == "obj" and o[2] in self.prog.classes and not self.pt.has_ext_base(o[2]):
                    for a_ in self.pt.fields.get(o, ()):
                        if any(v[0] == "obj" and v[2] == "ext:Connection" for v in self.pt.get(("F", o, a_))):
                            out.add(o)
        return self.need(out, "wake-up object (executor field owning a pipe)")

    def wait_leaves(self, func, expr, depth=8):
        """Leaves of the wait-set expression after expanding locals."""
        expr = self.e.expand(func, expr)
        if depth == 0:
            return [expr]
        if isinstance(expr, ast.BinOp) and isinstance(expr.op, ast.Add):
            return self.wait_leaves(func, expr.left, depth - 1) + self.wait_leaves(func, expr.right, depth - 1)
        if isinstance(expr, (ast.List, ast.Tuple)):
            out = []
            for e in expr.elts:
                out += self.wait_leaves(func, e.value if isinstance(e, ast.Starred) else e, depth - 1)
            return out
        if isinstance(expr, ast.Call) and isinstance(expr.func, ast.Name) and expr.func.id in ("list", "tuple") \
                and len(expr.args) == 1:
            return self.wait_leaves(func, expr.args[0], depth - 1)
        return [expr]

    @lazy
    def wakeup_cls(self):
        return self.unique({o[2] for o in self.wakeup_objs}, "wake-up class")

    def _wakeup_method(self, attrs, what):
        c = self.prog.classes[self.wakeup_cls]
        out = []
        for m in c.methods.values():
            if m.node.name.startswith("__"):
                continue
            for n in func_nodes(m):
                if isinstance(n, ast.Call) and isinstance(n.func, ast.Attribute) and n.func.attr in attrs:
                    out.append(m)
                    break
        return self.unique({m.qualname for m in out}, what)

    @lazy
    def wake_method(self):
        return self.prog.funcs[self._wakeup_method(("send_bytes", "send", "write"), "wake-up method (writes to the pipe)")]

    @lazy
    def wake_close_method(self):
        return self.prog.funcs[self._wakeup_method(("close",), "wake-up close method")]

    @lazy
    def wake_clear_method(self):
        return self.prog.funcs[self._wakeup_method(("recv_bytes", "recv", "read"), "wake-up clear method")]

    # -------------------------------------------------------- deferred hooks
    def _deferred_targets(self, kind):
        out = set()
        for cid, s in self.pt.calls.items():
            for q, k in s:
                if k == kind and q in self.prog.funcs:
                    out.add(q)
        return out

    @lazy
    def atexit_hook(self):
        qs = {q for q in self._deferred_targets("atexit") if q.startswith(PE + ":")}
        qs |= set()
        return self.prog.funcs[self.unique(qs, "at-exit hook of the executor module")]

    @lazy
    def gc_callback(self):
        qs = {q for q in self._deferred_targets("gc") if q.startswith(PE + ":")}
        return self.prog.funcs[self.unique(qs, "executor GC callback (weakref callback)")]

    @lazy
    def feeder(self):
        qs = {q for q in self._deferred_targets("thread") if q.startswith("loky.backend.queues:")}
        return self.prog.funcs[self.unique(qs, "queue feeder thread main")]

    @lazy
    def feeder_onerror(self):
        """Functions bound to the feeder's error-hook parameter."""
        f = self.feeder
        out = set()
        # the hook is the parameter that is *called* with the caught exception
        for n in func_nodes(f):
            if isinstance(n, ast.ExceptHandler) and n.name:
                for c in ast.walk(n):
                    if isinstance(c, ast.Call) and isinstance(c.func, ast.Name) and c.func.id in f.params \
                            and any(isinstance(a, ast.Name) and a.id == n.name for a in c.args):
                        for v in self.pt.get(("L", f.qualname, c.func.id)):
                            if v[0] == "bound" and v[2] in self.prog.funcs:
                                out.add(v[2])
                        self._onerror_param = c.func.id
        return self.need(out, "feeder error hook")

    @lazy
    def max_workers_attr(self):
        """The executor field that holds the pool size: the attribute the constructor fills from its public `max_workers` argument."""
        init = self.init
        selfn = init.params[0]
        out = set()
        for n in func_nodes(init):
            if isinstance(n, ast.Assign) and isinstance(n.targets[0], ast.Attribute) and isinstance(n.targets[0].value, ast.Name) and n.targets[0].value.id == selfn \
                    and isinstance(n.value, ast.Name) and n.value.id == "max_workers":
                out.add(n.targets[0].attr)
        return self.unique(out, "pool-size field of the executor")

    @lazy
    def roles(self):
        """role -> {qualname: predecessor}."""
        e = self.e
        r = {}
        r["MANAGER"] = self.manager_funcs
        r["WORKER"] = self.worker_funcs
        r["FEEDER"] = e.reach([self.feeder.qualname] + sorted(self.feeder_onerror))
        r["ATEXIT"] = e.reach([self.atexit_hook.qualname])
        r["GC"] = e.reach([self.gc_callback.qualname])
        user = []
        for cq, c in self.prog.classes.items():
            if self.pt.is_subclass(cq, EXECUTOR):
                for n in ("__init__", "submit", "map", "shutdown", "get_reusable_executor", "_resize"):
                    if n in c.methods:
                        user.append(c.methods[n].qualname)
        user.append("loky.reusable_executor:get_reusable_executor")
        r["USER"] = e.reach([u for u in user if u in self.prog.funcs])
        tr = "loky.backend.resource_tracker:main"
        r["TRACKER"] = e.reach([tr]) if tr in self.prog.funcs else {}
        return r

    def roles_of(self, q):
        return {r for r, fs in self.roles.items() if q in fs}

    # -------------------------------------------------------------- summary
    NAMES = ["executor_objs", "manager_cls", "manager_run", "worker_main", "spawn_func", "process_objs",
             "pending", "processes", "shutdown_lock", "flags_cls", "callq", "resq", "work_ids", "pml",
             "exit_locks", "running", "wait_calls", "wakeup_cls", "wake_method", "wake_close_method",
             "wake_clear_method", "atexit_hook", "gc_callback", "feeder", "feeder_onerror", "workitem_cls",
             "future_attr"]

    def resolve_all(self):
        for n in self.NAMES:
            getattr(self, n)
        self.roles

    def summary_resolved(self):
        """Summary of the anchors that were actually resolved by this run."""
        out = {}
        for n in self.NAMES:
            if hasattr(self, "_" + n):
                v = getattr(self, n)
                if isinstance(v, (set, frozenset, list)):
                    out[n] = sorted(self._d(x) for x in v)
                else:
                    out[n] = self._d(v)
        return out

    def summary(self):
        out = {}
        for n in self.NAMES:
            v = getattr(self, n)
            if isinstance(v, (set, frozenset, list)):
                out[n] = sorted(self._d(x) for x in v)
            else:
                out[n] = self._d(v)
        return out

    def _d(self, v):
        if isinstance(v, tuple) and v and v[0] in ("obj", "cont", "tuple"):
            return self.pt.describe(v)
        if isinstance(v, tuple) and len(v) == 2 and hasattr(v[0], "qualname"):
            return f"{v[0].short}: {norm(v[1])[:60]}"
        if hasattr(v, "qualname"):
            return v.qualname
        return str(v)
