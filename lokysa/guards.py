"""E7 -- guard decision tables.

A guard is a pure boolean expression over a handful of atoms combined with
and/or/not, comparisons, + and - and integer constants.  It is evaluated over
the finite domain of order types of its atoms and compared with a
specification predicate.  This evaluates an expression AST over an abstract
domain; it does not run loky.
"""
import ast
import itertools

from .model import AnalysisError


class Inconclusive(AnalysisError):
    pass


def eval_guard(expr, env, classify):
    """Evaluate expr with atoms resolved through classify(expr) -> name|None."""
    a = classify(expr)
    if a is not None:
        return env[a]
    if isinstance(expr, ast.Constant):
        return expr.value
    if isinstance(expr, ast.BoolOp):
        if isinstance(expr.op, ast.And):
            v = True
            for x in expr.values:
                v = eval_guard(x, env, classify)
                if not v:
                    return v
            return v
        v = False
        for x in expr.values:
            v = eval_guard(x, env, classify)
            if v:
                return v
        return v
    if isinstance(expr, ast.UnaryOp):
        v = eval_guard(expr.operand, env, classify)
        if isinstance(expr.op, ast.Not):
            return not v
        if isinstance(expr.op, ast.USub):
            return -v
    if isinstance(expr, ast.BinOp) and isinstance(expr.op, (ast.Add, ast.Sub)):
        l = eval_guard(expr.left, env, classify)
        r = eval_guard(expr.right, env, classify)
        return l + r if isinstance(expr.op, ast.Add) else l - r
    if isinstance(expr, ast.BinOp) and isinstance(expr.op, (ast.Mult, ast.FloorDiv)):
        l = eval_guard(expr.left, env, classify)
        r = eval_guard(expr.right, env, classify)
        return l * r if isinstance(expr.op, ast.Mult) else l // r
    if isinstance(expr, ast.Call) and isinstance(expr.func, ast.Name) and expr.func.id == "bool" and len(expr.args) == 1 and not expr.keywords:
        return bool(eval_guard(expr.args[0], env, classify))
    if isinstance(expr, ast.Call) and isinstance(expr.func, ast.Name) and expr.func.id in ("max", "min") and expr.args and not expr.keywords:
        vs = [eval_guard(x, env, classify) for x in expr.args]
        return max(vs) if expr.func.id == "max" else min(vs)
    if isinstance(expr, ast.Compare):
        left = eval_guard(expr.left, env, classify)
        for op, c in zip(expr.ops, expr.comparators):
            right = eval_guard(c, env, classify)
            ok = _cmp(op, left, right)
            if not ok:
                return False
            left = right
        return True
    if isinstance(expr, ast.IfExp):
        return eval_guard(expr.body if eval_guard(expr.test, env, classify) else expr.orelse, env, classify)
    raise Inconclusive(f"guard contains an unclassified sub-expression: {ast.unparse(expr)}")


def _cmp(op, l, r):
    if isinstance(op, ast.Gt):
        return l > r
    if isinstance(op, ast.GtE):
        return l >= r
    if isinstance(op, ast.Lt):
        return l < r
    if isinstance(op, ast.LtE):
        return l <= r
    if isinstance(op, ast.Eq):
        return l == r
    if isinstance(op, ast.NotEq):
        return l != r
    if isinstance(op, ast.Is):
        return l is r or l == r
    if isinstance(op, ast.IsNot):
        return not (l is r or l == r)
    raise Inconclusive(f"comparison operator {type(op).__name__} not supported in a guard")


def max_const(expr):
    k = 0
    for n in ast.walk(expr):
        if isinstance(n, ast.Constant) and isinstance(n.value, int) and not isinstance(n.value, bool):
            k = max(k, abs(n.value))
    return k


def table(expr, domains, classify, constraint=None):
    """{assignment tuple: truth} over the product of the atom domains."""
    names = sorted(domains)
    out = {}
    for vals in itertools.product(*(domains[n] for n in names)):
        env = dict(zip(names, vals))
        if constraint is not None and not constraint(env):
            continue
        out[vals] = bool(eval_guard(expr, env, classify))
    return names, out


def compare(expr, domains, classify, spec, constraint=None, must_rows=None):
    """Compare the guard with spec(env) -> bool|None (None = unconstrained row).
    Returns list of (env, got, want) mismatches."""
    names, tab = table(expr, domains, classify, constraint)
    bad = []
    for vals, got in tab.items():
        env = dict(zip(names, vals))
        want = spec(env)
        if want is None:
            continue
        if bool(want) != got:
            bad.append((env, got, bool(want)))
    return names, tab, bad
