"""E1 -- program model: modules, classes, functions, scopes, build arms.

The model is built from a ``{relative path: source}`` map so that the
self-validation tier can analyse in-memory variants of the tree; the default
map is read from the working tree of the repository on every run.
"""
import ast
import hashlib
import os
import sys

REPO = os.environ.get("LOKYSA_REPO", "/repo")
PKG = "loky"


class AnalysisError(Exception):
    """The analysis cannot decide (vanished anchor, unrecognised idiom).

    Never a pass and never a violation: reported as ANALYSIS-ERROR, exit 2.
    """


def read_sources(repo=None):
    repo = repo or REPO
    out = {}
    root = os.path.join(repo, PKG)
    for dp, dn, fn in os.walk(root):
        dn[:] = [d for d in dn if d != "__pycache__"]
        for f in sorted(fn):
            if f.endswith(".py"):
                p = os.path.join(dp, f)
                with open(p, encoding="utf-8") as fh:
                    out[os.path.relpath(p, repo)] = fh.read()
    if not out:
        raise AnalysisError(f"no sources found under {root}")
    return out


def modname_of(path):
    p = path[:-3].replace(os.sep, "/").split("/")
    if p[-1] == "__init__":
        p = p[:-1]
    return ".".join(p)


# ---------------------------------------------------------------------------
# build arms
# ---------------------------------------------------------------------------

PLATFORM = "linux"
OSNAME = "posix"
VERSION = tuple(sys.version_info[:3])


def _const(node):
    if isinstance(node, ast.Constant):
        return node.value
    if isinstance(node, ast.Tuple):
        vals = [_const(e) for e in node.elts]
        if all(v is not _NO for v in vals):
            return tuple(vals)
    return _NO


_NO = object()


def _dotted(node):
    parts = []
    while isinstance(node, ast.Attribute):
        parts.append(node.attr)
        node = node.value
    if isinstance(node, ast.Name):
        parts.append(node.id)
        return ".".join(reversed(parts))
    return None


def static_truth(test):
    """Truth of a build-arm test on the analysed arm set (POSIX/linux, running
    interpreter version), or None when the test is not a build-arm test."""
    if isinstance(test, ast.BoolOp):
        vals = [static_truth(v) for v in test.values]
        if isinstance(test.op, ast.And):
            if any(v is False for v in vals):
                return False
            if all(v is True for v in vals):
                return True
            return None
        if any(v is True for v in vals):
            return True
        if all(v is False for v in vals):
            return False
        return None
    if isinstance(test, ast.UnaryOp) and isinstance(test.op, ast.Not):
        v = static_truth(test.operand)
        return None if v is None else (not v)
    if isinstance(test, ast.Compare) and len(test.ops) == 1:
        left = _dotted(test.left)
        right = _const(test.comparators[0])
        if right is _NO or left is None:
            return None
        op = test.ops[0]
        if left == "sys.platform":
            lv = PLATFORM
        elif left == "os.name":
            lv = OSNAME
        elif left == "sys.version_info":
            lv = VERSION
            if isinstance(right, tuple):
                lv = VERSION[: max(len(right), 1)] if isinstance(op, (ast.Eq, ast.NotEq)) else VERSION
        else:
            return None
        try:
            if isinstance(op, ast.Eq):
                return lv == right
            if isinstance(op, ast.NotEq):
                return lv != right
            if isinstance(op, ast.Lt):
                return lv < right
            if isinstance(op, ast.LtE):
                return lv <= right
            if isinstance(op, ast.Gt):
                return lv > right
            if isinstance(op, ast.GtE):
                return lv >= right
        except TypeError:
            return None
    return None


# ---------------------------------------------------------------------------
# entities
# ---------------------------------------------------------------------------


class Func:
    """A function, method, lambda or module body."""

    def __init__(self, qualname, node, module, cls=None, parent=None, kind="def"):
        self.qualname = qualname  # 'loky.process_executor:Class.method'
        self.node = node
        self.module = module
        self.cls = cls  # Class for methods (directly in a class body)
        self.parent = parent  # enclosing Func (None for module-level defs)
        self.kind = kind  # def | lambda | module
        self.decorators = set()
        self.locals = set()
        self.globals_decl = set()
        self.nonlocals_decl = set()
        self.params = []  # positional parameter names (posonly + args)
        self.kwonly = []
        self.vararg = None
        self.kwarg = None
        self.defaults = {}  # name -> expr
        if kind != "module":
            a = node.args
            self.params = [x.arg for x in a.posonlyargs + a.args]
            self.kwonly = [x.arg for x in a.kwonlyargs]
            self.vararg = a.vararg.arg if a.vararg else None
            self.kwarg = a.kwarg.arg if a.kwarg else None
            pos = a.posonlyargs + a.args
            for p, d in zip(pos[len(pos) - len(a.defaults):], a.defaults):
                self.defaults[p.arg] = d
            for p, d in zip(a.kwonlyargs, a.kw_defaults):
                if d is not None:
                    self.defaults[p.arg] = d
            if kind == "def":
                for d in node.decorator_list:
                    n = _dotted(d)
                    if n:
                        self.decorators.add(n)

    @property
    def name(self):
        return self.qualname.split(":")[1]

    @property
    def short(self):
        return self.qualname.split(":")[1]

    @property
    def body(self):
        if self.kind == "lambda":
            return [ast.Return(value=self.node.body)]
        return self.node.body

    def all_params(self):
        r = list(self.params) + list(self.kwonly)
        if self.vararg:
            r.append(self.vararg)
        if self.kwarg:
            r.append(self.kwarg)
        return r

    def __repr__(self):
        return f"<Func {self.qualname}>"


class Class:
    def __init__(self, qualname, node, module, parent_func=None):
        self.qualname = qualname
        self.node = node
        self.module = module
        self.parent_func = parent_func
        self.methods = {}  # name -> Func
        self.attrs = {}  # name -> [expr]
        self.base_exprs = list(node.bases)

    @property
    def name(self):
        return self.qualname.split(":")[1]

    def __repr__(self):
        return f"<Class {self.qualname}>"


from .canon import canonicalise  # noqa: E402


class Module:
    def __init__(self, name, path, source):
        self.name = name
        self.path = path
        self.source = source
        self.tree = canonicalise(ast.parse(source, filename=path))
        self.digest = hashlib.sha256(source.encode()).hexdigest()[:16]
        self.is_pkg = path.endswith("__init__.py")
        self.body_func = None


class _ScopeCollector(ast.NodeVisitor):
    """Collect names bound in one function scope (not descending into nested
    function/class scopes, but treating comprehension targets as locals)."""

    def __init__(self, func):
        self.f = func

    def bind(self, name):
        self.f.locals.add(name)

    def visit_Name(self, node):
        if isinstance(node.ctx, (ast.Store, ast.Del)):
            self.bind(node.id)

    def visit_FunctionDef(self, node):
        self.bind(node.name)
        for d in node.decorator_list:
            self.visit(d)
        for d in node.args.defaults + [k for k in node.args.kw_defaults if k]:
            self.visit(d)

    visit_AsyncFunctionDef = visit_FunctionDef

    def visit_ClassDef(self, node):
        self.bind(node.name)
        for b in node.bases:
            self.visit(b)

    def visit_Lambda(self, node):
        for d in node.args.defaults + [k for k in node.args.kw_defaults if k]:
            self.visit(d)

    def visit_Global(self, node):
        self.f.globals_decl.update(node.names)

    def visit_Nonlocal(self, node):
        self.f.nonlocals_decl.update(node.names)

    def visit_Import(self, node):
        for a in node.names:
            self.bind((a.asname or a.name).split(".")[0])

    def visit_ImportFrom(self, node):
        for a in node.names:
            self.bind(a.asname or a.name)

    def visit_ExceptHandler(self, node):
        if node.name:
            self.bind(node.name)
        self.generic_visit(node)

    def visit_If(self, node):
        t = static_truth(node.test)
        self.visit(node.test)
        if t is not False:
            for s in node.body:
                self.visit(s)
        if t is not True:
            for s in node.orelse:
                self.visit(s)


class Program:
    def __init__(self, sources=None, inline_select=False):
        """inline_select: False = the program as written; None = every eligible single-call-site private helper inlined;
        a set of names = those helpers inlined (see inline.py: an equivalent program, used as a refinement variant)."""
        self.sources = sources if sources is not None else read_sources()
        self.inlined = []
        self.modules = {}
        self.funcs = {}  # qualname -> Func
        self.classes = {}  # qualname -> Class
        self.func_of_node = {}  # id(ast node of def/lambda/module) -> Func
        self.class_of_node = {}
        self.owner = {}  # id(any ast node) -> Func whose scope evaluates it
        self.parent = {}  # id(node) -> parent node
        self.skipped_arms = []
        for path in sorted(self.sources):
            mod = Module(modname_of(path), path, self.sources[path])
            self.modules[mod.name] = mod
        if inline_select is not False:
            from .inline import inline
            trees = {m.path: m.tree for m in self.modules.values()}
            self.inlined = inline(trees, self.sources, inline_select)
        for mod in self.modules.values():
            self._index_module(mod)

    # -- indexing ---------------------------------------------------------
    def _index_module(self, mod):
        f = Func(f"{mod.name}:<module>", mod.tree, mod, kind="module")
        mod.body_func = f
        self.funcs[f.qualname] = f
        self.func_of_node[id(mod.tree)] = f
        self._index_body(mod.tree.body, f, mod, None, "")
        _ScopeCollector(f).generic_visit(mod.tree)

    def _index_body(self, stmts, func, mod, cls, prefix):
        for s in stmts:
            self._index_node(s, func, mod, cls, prefix)

    def _index_node(self, node, func, mod, cls, prefix, parent=None):
        """Walk *node* assigning owner scopes; create Func/Class entities."""
        if parent is not None:
            self.parent[id(node)] = parent
        if isinstance(node, ast.If):
            t = static_truth(node.test)
            if t is not None:
                dead = node.orelse if t else node.body
                if dead:
                    self.skipped_arms.append(
                        f"{mod.path}:{node.lineno} arm of `{ast.unparse(node.test)}` (={t}) skipped"
                    )
        if isinstance(node, (ast.FunctionDef, ast.AsyncFunctionDef)):
            self.owner[id(node)] = func
            q = f"{mod.name}:{prefix}{node.name}"
            if q in self.funcs:  # redefinition (e.g. conditional defs): keep both, suffix
                k = 2
                while f"{q}#{k}" in self.funcs:
                    k += 1
                q = f"{q}#{k}"
            nf = Func(q, node, mod, cls=cls, parent=func if func.kind != "module" else None)
            if cls is not None and func.kind != "module":
                nf.parent = func
            self.funcs[q] = nf
            self.func_of_node[id(node)] = nf
            if cls is not None:
                cls.methods.setdefault(node.name, nf)
            for d in node.decorator_list:
                self._index_node(d, func, mod, cls, prefix, node)
            for d in node.args.defaults + [k for k in node.args.kw_defaults if k]:
                self._index_node(d, func, mod, cls, prefix, node)
            sc = _ScopeCollector(nf)
            for p in nf.all_params():
                nf.locals.add(p)
            for s in node.body:
                sc.visit(s)
            nf.locals -= nf.globals_decl | nf.nonlocals_decl
            for s in node.body:
                self._index_node(s, nf, mod, None, f"{prefix}{node.name}.", node)
            return
        if isinstance(node, ast.Lambda):
            self.owner[id(node)] = func
            q = f"{mod.name}:{prefix}<lambda@{node.lineno}:{node.col_offset}>"
            nf = Func(q, node, mod, cls=None, parent=func if func.kind != "module" else None, kind="lambda")
            self.funcs[q] = nf
            self.func_of_node[id(node)] = nf
            for p in nf.all_params():
                nf.locals.add(p)
            for d in node.args.defaults + [k for k in node.args.kw_defaults if k]:
                self._index_node(d, func, mod, cls, prefix, node)
            self._index_node(node.body, nf, mod, None, prefix, node)
            return
        if isinstance(node, ast.ClassDef):
            self.owner[id(node)] = func
            q = f"{mod.name}:{prefix}{node.name}"
            c = Class(q, node, mod, parent_func=func if func.kind != "module" else None)
            self.classes[q] = c
            self.class_of_node[id(node)] = c
            for b in node.bases:
                self._index_node(b, func, mod, cls, prefix, node)
            for s in node.body:
                # class body statements are evaluated in the enclosing
                # function's scope for name resolution purposes
                self._index_node(s, func, mod, c, f"{prefix}{node.name}.", node)
                if isinstance(s, ast.Assign):
                    for t in s.targets:
                        if isinstance(t, ast.Name):
                            c.attrs.setdefault(t.id, []).append(s.value)
            return
        self.owner[id(node)] = func
        if cls is not None and isinstance(node, ast.stmt):
            # statement directly in a class body: remember the class
            self.owner[id(node)] = func
        for ch in ast.iter_child_nodes(node):
            self._index_node(ch, func, mod, cls if isinstance(node, (ast.If, ast.Try)) else None, prefix, node)

    # -- queries -----------------------------------------------------------
    def func(self, qualname):
        try:
            return self.funcs[qualname]
        except KeyError:
            raise AnalysisError(f"anchor vanished: function {qualname}")

    def cls(self, qualname):
        try:
            return self.classes[qualname]
        except KeyError:
            raise AnalysisError(f"anchor vanished: class {qualname}")

    def enclosing_func(self, node):
        return self.owner.get(id(node))

    def loc(self, func, node):
        ln = getattr(node, "lineno", None)
        return f"{func.module.path}:{ln}" if ln else func.module.path

    def digests(self):
        return {m.path: m.digest for m in self.modules.values()}

    def resolve_import(self, mod, node, alias):
        """Return ('module', name) | ('global', module, name) | ('ext', dotted)."""
        if isinstance(node, ast.Import):
            full = alias.name
            if full == PKG or full.startswith(PKG + "."):
                top = full if alias.asname else full.split(".")[0]
                return ("module", top)
            return ("ext", full if alias.asname else full.split(".")[0])
        # ImportFrom
        level = node.level
        base = node.module or ""
        if level:
            pk = mod.name.split(".")
            if not mod.is_pkg:
                pk = pk[:-1]
            pk = pk[: len(pk) - (level - 1)]
            full = ".".join(pk + ([base] if base else []))
        else:
            full = base
        if full == PKG or full.startswith(PKG + "."):
            sub = f"{full}.{alias.name}"
            if sub in self.modules:
                return ("module", sub)
            if full in self.modules:
                return ("global", full, alias.name)
            return ("ext", sub)
        return ("ext", f"{full}.{alias.name}")


def walk_scope(node):
    """Yield the nodes evaluated in the scope that contains *node* (a statement
    or expression of that scope): nested function/lambda bodies are not
    entered (only their decorators and defaults), class bodies are (their
    statements run in the enclosing scope), dead build arms are skipped."""
    stack = [node]
    while stack:
        n = stack.pop()
        yield n
        if isinstance(n, (ast.FunctionDef, ast.AsyncFunctionDef)):
            kids = list(n.decorator_list) + list(n.args.defaults) + [k for k in n.args.kw_defaults if k]
        elif isinstance(n, ast.Lambda):
            kids = list(n.args.defaults) + [k for k in n.args.kw_defaults if k]
        elif isinstance(n, ast.If):
            t = static_truth(n.test)
            kids = [n.test]
            if t is not False:
                kids += n.body
            if t is not True:
                kids += n.orelse
        else:
            kids = list(ast.iter_child_nodes(n))
        stack.extend(reversed(kids))


def func_nodes(func):
    """All nodes evaluated in *func*'s own scope."""
    if func.kind == "lambda":
        yield from walk_scope(func.node.body)
        return
    for s in func.node.body:
        yield from walk_scope(s)


def norm(node):
    """Normalised source text of a node (position independent)."""
    if node is None:
        return ""
    return ast.unparse(node)
