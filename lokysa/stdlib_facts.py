"""E9 -- stdlib summaries and their conformance.

loky subclasses and monkey-patches the standard library; the rules rely on a
small table of facts about it.  The thorough tier re-derives each fact from the
AST of the running interpreter's own stdlib *source* (located with
importlib.util.find_spec, never imported for execution) and fails as an
analysis error when a fact no longer holds, so that a Python upgrade cannot
silently invalidate a rule.  The quick tier trusts the table.
"""
import ast
import importlib.util

from .model import AnalysisError


def _tree(modname):
    spec = importlib.util.find_spec(modname)
    if spec is None or not spec.origin or not spec.origin.endswith(".py"):
        raise AnalysisError(f"stdlib source of {modname} not found")
    with open(spec.origin, encoding="utf-8") as fh:
        return ast.parse(fh.read()), spec.origin


def _method(tree, cls, name):
    for c in ast.walk(tree):
        if isinstance(c, ast.ClassDef) and c.name == cls:
            for m in c.body:
                if isinstance(m, (ast.FunctionDef,)) and m.name == name:
                    return m
    return None


def _calls(node, dotted):
    return [c for c in ast.walk(node) if isinstance(c, ast.Call) and ast.unparse(c.func) == dotted]


FACTS = []


def fact(fn):
    FACTS.append(fn)
    return fn


@fact
def queue_put_starts_feeder():
    """multiprocessing.queues.Queue.put starts the feeder thread (self._start_thread()) and acquires the slot semaphore"""
    t, o = _tree("multiprocessing.queues")
    m = _method(t, "Queue", "put")
    ok = m is not None and _calls(m, "self._start_thread") and _calls(m, "self._sem.acquire")
    return bool(ok), o


@fact
def queue_get_releases_slot():
    """multiprocessing.queues.Queue.get releases one slot (self._sem.release()); full() probes the slot semaphore"""
    t, o = _tree("multiprocessing.queues")
    g = _method(t, "Queue", "get")
    f = _method(t, "Queue", "full")
    ok = g is not None and _calls(g, "self._sem.release") and f is not None and "_sem" in ast.unparse(f)
    return bool(ok), o


@fact
def queue_feed_signature():
    """multiprocessing.queues.Queue has _feed, _start_thread, _on_queue_feeder_error, _finalize_close, _finalize_join hooks that loky overrides/uses"""
    t, o = _tree("multiprocessing.queues")
    ok = all(_method(t, "Queue", n) is not None for n in ("_feed", "_start_thread", "_on_queue_feeder_error", "_finalize_close", "_finalize_join"))
    return ok, o


@fact
def queue_close_calls_finaliser():
    """multiprocessing.queues.Queue.close() calls the finaliser stored in self._close; _finalize_close appends the sentinel to the buffer and notifies the feeder"""
    t, o = _tree("multiprocessing.queues")
    c = _method(t, "Queue", "close")
    fcl = _method(t, "Queue", "_finalize_close")
    src = ast.unparse(c) if c else ""
    ok = "self._close" in src and "close()" in src and fcl is not None and "_sentinel" in ast.unparse(fcl) and "notify" in ast.unparse(fcl)
    return bool(ok), o


@fact
def executor_map_submits():
    """concurrent.futures.Executor.map submits one call per element of zip(*iterables) through self.submit"""
    t, o = _tree("concurrent.futures._base")
    m = _method(t, "Executor", "map")
    ok = m is not None and _calls(m, "self.submit") and "zip(*iterables)" in ast.unparse(m)
    return bool(ok), o


@fact
def executor_exit_shuts_down():
    """concurrent.futures.Executor.__exit__ calls self.shutdown(wait=True)"""
    t, o = _tree("concurrent.futures._base")
    m = _method(t, "Executor", "__exit__")
    ok = m is not None and any(any(k.arg == "wait" and isinstance(k.value, ast.Constant) and k.value.value is True for k in c.keywords)
                               for c in _calls(m, "self.shutdown"))
    return bool(ok), o


@fact
def future_cancel_protocol():
    """Future.set_running_or_notify_cancel returns False iff the future was cancelled; set_result/set_exception are terminal and invoke the callbacks"""
    t, o = _tree("concurrent.futures._base")
    m = _method(t, "Future", "set_running_or_notify_cancel")
    rets = [r for r in ast.walk(m) if isinstance(r, ast.Return) and isinstance(r.value, ast.Constant)] if m else []
    ok = {r.value.value for r in rets} == {True, False}
    for n in ("set_result", "set_exception"):
        mm = _method(t, "Future", n)
        ok = ok and mm is not None and bool(_calls(mm, "self._invoke_callbacks"))
    return bool(ok), o


@fact
def future_set_raises_invalid_state():
    """Future.set_result / set_exception raise InvalidStateError when the future is CANCELLED or FINISHED"""
    t, o = _tree("concurrent.futures._base")
    ok = True
    for n in ("set_result", "set_exception"):
        m = _method(t, "Future", n)
        src = ast.unparse(m) if m else ""
        ok = ok and "InvalidStateError" in src and "CANCELLED" in src
    return bool(ok), o


@fact
def tracker_client_literals():
    """stdlib ResourceTracker.register/unregister send REGISTER/UNREGISTER through _send; _check_alive writes a PROBE line; _send writes 'cmd:name:rtype\\n' of at most 512 bytes"""
    t, o = _tree("multiprocessing.resource_tracker")
    ok = True
    for n, lit in (("register", "REGISTER"), ("unregister", "UNREGISTER")):
        m = _method(t, "ResourceTracker", n)
        ok = ok and m is not None and any(c.args and isinstance(c.args[0], ast.Constant) and c.args[0].value == lit for c in _calls(m, "self._send"))
    ca = _method(t, "ResourceTracker", "_check_alive")
    ok = ok and ca is not None and any(isinstance(x, ast.Constant) and isinstance(x.value, bytes) and x.value.startswith(b"PROBE:") for x in ast.walk(ca))
    s = _method(t, "ResourceTracker", "_send")
    src = ast.unparse(s) if s else ""
    ok = ok and "512" in src and ":" in src
    return bool(ok), o


@fact
def tracker_getfd():
    """stdlib ResourceTracker.getfd() = ensure_running(); return self._fd"""
    t, o = _tree("multiprocessing.resource_tracker")
    m = _method(t, "ResourceTracker", "getfd")
    ok = m is not None and _calls(m, "self.ensure_running") and any(isinstance(r, ast.Return) and ast.unparse(r.value) == "self._fd" for r in ast.walk(m))
    return bool(ok), o


@fact
def connection_wait_signature():
    """multiprocessing.connection.wait(object_list, timeout=None) blocks without timeout"""
    t, o = _tree("multiprocessing.connection")
    fs = [f for f in ast.walk(t) if isinstance(f, ast.FunctionDef) and f.name == "wait"]
    ok = bool(fs) and all([a.arg for a in f.args.args] == ["object_list", "timeout"] for f in fs)
    return bool(ok), o


@fact
def threading_atexit_hook():
    """threading._register_atexit exists (hooks run before non-daemon threads are joined)"""
    t, o = _tree("threading")
    ok = any(isinstance(f, ast.FunctionDef) and f.name == "_register_atexit" for f in ast.walk(t))
    return ok, o


@fact
def simplequeue_fields():
    """multiprocessing.queues.SimpleQueue has _reader, _writer, _rlock, _wlock; mp Queue state has the fields loky's __getstate__ ships"""
    t, o = _tree("multiprocessing.queues")
    m = _method(t, "SimpleQueue", "__init__")
    src = ast.unparse(m) if m else ""
    ok = all(f"self.{a}" in src for a in ("_reader", "_writer", "_rlock", "_wlock"))
    q = _method(t, "Queue", "__getstate__")
    qs = ast.unparse(q) if q else ""
    ok = ok and all(f"self.{a}" in qs for a in ("_ignore_epipe", "_maxsize", "_reader", "_writer", "_rlock", "_wlock", "_sem", "_opid"))
    return ok, o


def check_all(R=None):
    out = []
    bad = []
    for f in FACTS:
        try:
            ok, origin = f()
        except AnalysisError as ex:
            ok, origin = False, str(ex)
        out.append({"fact": f.__doc__, "holds": bool(ok), "source": origin})
        if not ok:
            bad.append(f.__doc__)
    if bad:
        raise AnalysisError("stdlib fact no longer holds on this interpreter: " + "; ".join(bad))
    return {"stdlib_conformance": out}
