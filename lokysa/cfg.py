"""E4 -- per-function control-flow graphs.

Statement-level CFG over the statement kinds loky uses.  Short-circuit
conditions are split into atoms (``test`` nodes with T/F edges); ``finally``
bodies and ``with`` exits are duplicated per continuation kind (fall-through,
return, break, continue, exception).  Edges are labelled:

  None   sequential          "T"/"F"  branch on a test / loop iterator
  "exc"  exceptional edge (only from statements inside a ``try`` -- or from
         every statement when built with ``implicit_raise=True`` -- and from
         ``raise`` / no-return calls)

Build arms (``sys.platform`` / ``sys.version_info`` tests) are resolved
statically; dead arms are not part of the graph.
"""
import ast

from .model import AnalysisError, static_truth, _dotted

NORETURN = {"sys.exit", "os._exit", "exit", "quit"}


class Node:
    __slots__ = ("id", "kind", "ast", "succ", "pred", "copy_of", "tag")

    def __init__(self, id, kind, astnode=None, tag=None):
        self.id = id
        self.kind = kind
        self.ast = astnode
        self.succ = []  # (Node, label)
        self.pred = []  # (Node, label)
        self.tag = tag

    @property
    def lineno(self):
        ln = getattr(self.ast, "lineno", None)
        if ln is None and isinstance(self.ast, ast.withitem):
            ln = getattr(self.ast.context_expr, "lineno", None)
        return ln

    def __repr__(self):
        t = ""
        if self.ast is not None:
            try:
                t = ast.unparse(self.ast).split("\n")[0][:50]
            except Exception:
                t = type(self.ast).__name__
        return f"<{self.id}:{self.kind}{':' + self.tag if self.tag else ''} {t}>"


class _Frame:
    def __init__(self, type, **kw):
        self.type = type  # loop | finally | try
        self.__dict__.update(kw)
        self.cache = {}


class CFG:
    def __init__(self, func, implicit_raise=False):
        self.func = func
        self.implicit_raise = implicit_raise
        self.nodes = []
        self.entry = self.new("entry")
        self.exit = self.new("exit")
        self.raise_exit = self.new("raise_exit")
        self.by_ast = {}
        body = func.body
        ends = self.block(body, [], [(self.entry, None)])
        self.connect(ends, self.exit)
        self._dom = None
        self._pdom = None

    # ----------------------------------------------------------- construction
    def new(self, kind, astnode=None, tag=None):
        n = Node(len(self.nodes), kind, astnode, tag)
        self.nodes.append(n)
        if astnode is not None:
            self.by_ast.setdefault(id(astnode), []).append(n)
        return n

    def edge(self, a, b, label=None):
        if (b, label) not in a.succ:
            a.succ.append((b, label))
            b.pred.append((a, label))

    def connect(self, ends, node):
        for n, l in ends:
            self.edge(n, node, l)

    def in_try(self, frames):
        return any(f.type == "try" or (f.type == "finally" and not f.is_with) for f in frames)

    def jump(self, frames, kind, ends):
        """Route *ends* to the destination of a return/break/continue/exc
        through the enclosing finally / with-exit copies."""
        if not ends:
            return
        i = len(frames) - 1
        while i >= 0:
            fr = frames[i]
            if fr.type == "finally":
                j = fr.cache.get(kind)
                if j is not None:
                    self.connect(ends, j)
                    return
                j = self.new("join", tag=f"finally-{kind}")
                fr.cache[kind] = j
                self.connect(ends, j)
                if fr.is_with:
                    x = self.new("with_exit", fr.item, tag=kind)
                    self.edge(j, x)
                    ends = [(x, "exc" if kind == "exc" else None)]
                else:
                    ends = self.block(fr.body, frames[:i], [(j, None)])
                    if kind == "exc" and ends:
                        # keep the branch labels of the finally body; the
                        # exception continues to propagate from a join node
                        k = self.new("join", tag="reraise")
                        self.connect(ends, k)
                        ends = [(k, "exc")]
                if not ends:
                    return
            elif fr.type == "loop" and kind in ("break", "continue"):
                self.connect(ends, fr.brk if kind == "break" else fr.cont)
                return
            elif fr.type == "try" and kind == "exc":
                for h in fr.handlers:
                    self.connect([(n, "exc") for n, _ in ends], h)
                if fr.catch_all:
                    return
            i -= 1
        if kind == "return":
            self.connect(ends, self.exit)
        elif kind == "exc":
            self.connect([(n, "exc") for n, _ in ends], self.raise_exit)
        else:
            raise AnalysisError(f"{kind} outside loop in {self.func.qualname}")

    def stmt_node(self, s, frames, preds, kind="stmt", may_raise=True):
        n = self.new(kind, s)
        self.connect(preds, n)
        if may_raise and (self.implicit_raise or self.in_try(frames)):
            self.jump(frames, "exc", [(n, "exc")])
        return n

    def cond(self, e, frames, preds):
        """Returns (true_ends, false_ends)."""
        t = static_truth(e)
        if t is True:
            return list(preds), []
        if t is False:
            return [], list(preds)
        if isinstance(e, ast.Constant):
            return (list(preds), []) if e.value else ([], list(preds))
        if isinstance(e, ast.BoolOp):
            if isinstance(e.op, ast.And):
                cur = list(preds)
                fs = []
                for v in e.values:
                    t_, f_ = self.cond(v, frames, cur)
                    fs += f_
                    cur = t_
                return cur, fs
            cur = list(preds)
            ts = []
            for v in e.values:
                t_, f_ = self.cond(v, frames, cur)
                ts += t_
                cur = f_
            return ts, cur
        if isinstance(e, ast.UnaryOp) and isinstance(e.op, ast.Not):
            t_, f_ = self.cond(e.operand, frames, preds)
            return f_, t_
        # reading a bare name cannot raise (the truth test of a module constant / local flag)
        n = self.stmt_node(e, frames, preds, kind="test", may_raise=not isinstance(e, ast.Name))
        return [(n, "T")], [(n, "F")]

    def block(self, stmts, frames, preds):
        for s in stmts:
            preds = self.stmt(s, frames, preds)
        return preds

    def stmt(self, s, frames, preds):
        if not preds:
            return []  # unreachable code
        if isinstance(s, ast.If):
            t, f = self.cond(s.test, frames, preds)
            te = self.block(s.body, frames, t) if t else []
            fe = self.block(s.orelse, frames, f) if f else []
            return te + fe
        if isinstance(s, ast.While):
            head = self.new("join", s, tag="loop-head")
            self.connect(preds, head)
            after = self.new("join", tag="loop-exit")
            fr = _Frame("loop", brk=after, cont=head)
            t, f = self.cond(s.test, frames, [(head, None)])
            be = self.block(s.body, frames + [fr], t)
            self.connect(be, head)
            fe = self.block(s.orelse, frames, f) if f else []
            self.connect(fe, after)
            return [(after, None)] if after.pred else []
        if isinstance(s, (ast.For, ast.AsyncFor)):
            init = self.stmt_node(s.iter, frames, preds, kind="for_init")
            head = self.new("for_iter", s, tag="loop-head")
            self.edge(init, head)
            after = self.new("join", tag="loop-exit")
            fr = _Frame("loop", brk=after, cont=head)
            be = self.block(s.body, frames + [fr], [(head, "T")])
            self.connect(be, head)
            fe = self.block(s.orelse, frames, [(head, "F")])
            self.connect(fe, after)
            return [(after, None)]
        if isinstance(s, (ast.With, ast.AsyncWith)):
            fs = list(frames)
            for it in s.items:
                n = self.stmt_node(it, fs, preds, kind="with_enter")
                preds = [(n, None)]
                fs = fs + [_Frame("finally", is_with=True, item=it, body=None)]
            ends = self.block(s.body, fs, preds)
            for it in reversed(s.items):
                if ends:
                    x = self.new("with_exit", it, tag="normal")
                    self.connect(ends, x)
                    ends = [(x, None)]
            return ends
        if isinstance(s, ast.Try):
            fin = _Frame("finally", is_with=False, body=s.finalbody) if s.finalbody else None
            outer = frames + ([fin] if fin else [])
            hnodes = []
            catch_all = False
            for h in s.handlers:
                hn = self.new("except", h)
                hnodes.append(hn)
                if h.type is None or (_dotted(h.type) == "BaseException"):
                    catch_all = True
            tf = _Frame("try", handlers=hnodes, catch_all=catch_all) if s.handlers else None
            inner = outer + ([tf] if tf else [])
            be = self.block(s.body, inner, preds)
            ee = self.block(s.orelse, outer, be) if s.orelse else be
            ends = list(ee)
            for h, hn in zip(s.handlers, hnodes):
                if hn.pred:
                    ends += self.block(h.body, outer, [(hn, None)])
            if fin:
                if ends:
                    j = self.new("join", tag="finally-normal")
                    self.connect(ends, j)
                    ends = self.block(s.finalbody, frames, [(j, None)])
            return ends
        if isinstance(s, ast.Return):
            n = self.stmt_node(s, frames, preds, may_raise=s.value is not None)
            self.jump(frames, "return", [(n, None)])
            return []
        if isinstance(s, ast.Raise):
            n = self.stmt_node(s, frames, preds, may_raise=False)
            self.jump(frames, "exc", [(n, "exc")])
            return []
        if isinstance(s, ast.Break):
            n = self.stmt_node(s, frames, preds, may_raise=False)
            self.jump(frames, "break", [(n, None)])
            return []
        if isinstance(s, ast.Continue):
            n = self.stmt_node(s, frames, preds, may_raise=False)
            self.jump(frames, "continue", [(n, None)])
            return []
        if isinstance(s, ast.Expr) and isinstance(s.value, ast.Call) and _dotted(s.value.func) in NORETURN:
            n = self.stmt_node(s, frames, preds, may_raise=False)
            n.tag = "noreturn"
            if _dotted(s.value.func) == "os._exit":
                self.edge(n, self.raise_exit, "exc")
            else:
                self.jump(frames, "exc", [(n, "exc")])
            return []
        if isinstance(s, (ast.FunctionDef, ast.AsyncFunctionDef, ast.ClassDef, ast.Pass,
                          ast.Global, ast.Nonlocal, ast.Import, ast.ImportFrom)):
            n = self.stmt_node(s, frames, preds, may_raise=isinstance(s, (ast.Import, ast.ImportFrom)))
            return [(n, None)]
        if isinstance(s, ast.Match):
            raise AnalysisError(f"match statement not supported ({self.func.qualname})")
        n = self.stmt_node(s, frames, preds)
        return [(n, None)]

    # ---------------------------------------------------------------- queries
    def nodes_of(self, astnode):
        return list(self.by_ast.get(id(astnode), []))

    def nodes_containing(self, inner):
        """CFG nodes whose ast contains *inner* (an ast node)."""
        out = []
        for n in self.nodes:
            if n.ast is None or n.kind in ("join", "for_iter", "except"):
                continue
            if n.kind == "with_exit":
                continue
            root = n.ast.context_expr if n.kind == "with_enter" else n.ast
            for x in _walk_noscope(root):
                if x is inner:
                    out.append(n)
                    break
        return out

    def reachable(self, labels_excluded=()):
        seen = {self.entry}
        st = [self.entry]
        while st:
            n = st.pop()
            for m, l in n.succ:
                if l in labels_excluded or m in seen:
                    continue
                seen.add(m)
                st.append(m)
        return seen

    def dominators(self):
        if self._dom is None:
            self._dom = _dom(self.nodes, self.entry, lambda n: [p for p, _ in n.pred])
        return self._dom

    def dominates(self, a, b):
        return a in self.dominators().get(b, ())

    def postdominators(self, normal_only=True):
        """Post-dominators with respect to the normal exit (exceptional edges
        ignored when normal_only)."""
        key = normal_only
        if self._pdom is None:
            self._pdom = {}
        if key not in self._pdom:
            if normal_only:
                succ = lambda n: [s for s, l in n.succ if l != "exc"]
            else:
                succ = lambda n: [s for s, l in n.succ]
            self._pdom[key] = _dom(self.nodes, self.exit, succ)
        return self._pdom[key]

    def path_exists(self, src, dst_pred, avoid=(), use_exc=True, start_labels=None, edge_ok=None):
        return self.find_path(src, dst_pred, avoid, use_exc, start_labels, edge_ok) is not None

    def find_path(self, src, dst_pred, avoid=(), use_exc=True, start_labels=None, edge_ok=None):
        """Shortest path (list of nodes, src first) from src (exclusive) to a
        node satisfying dst_pred that does not continue through nodes in
        *avoid* (a collection or predicate); None if there is none.
        edge_ok(n, m, label) may veto individual edges."""
        av = avoid if callable(avoid) else (lambda n, s=set(avoid): n in s)
        prev = {}
        st = []
        for m, l in src.succ:
            if start_labels is not None and l not in start_labels:
                continue
            if l == "exc" and not use_exc:
                continue
            if edge_ok is not None and not edge_ok(src, m, l):
                continue
            if m not in prev:
                prev[m] = src
                st.append(m)
        while st:
            n = st.pop(0)
            if dst_pred(n):
                path = [n]
                while path[-1] is not src:
                    path.append(prev[path[-1]])
                    if len(path) > len(self.nodes) + 2:
                        break
                return list(reversed(path))
            if av(n):
                continue
            for m, l in n.succ:
                if l == "exc" and not use_exc:
                    continue
                if edge_ok is not None and not edge_ok(n, m, l):
                    continue
                if m not in prev and m is not src:
                    prev[m] = n
                    st.append(m)
        return None

    def escape_path(self, src, through_pred, until_pred=None, use_exc=False, start_labels=None, edge_ok=None):
        """A path from src to a function exit (or to a node satisfying
        until_pred) that avoids every node satisfying through_pred; None when
        every such path passes through one (the must-pass-through check)."""
        def dst(n):
            if through_pred(n):
                return False
            if until_pred is not None and until_pred(n):
                return True
            return n is self.exit or (use_exc and n is self.raise_exit)
        return self.find_path(src, dst, avoid=through_pred, use_exc=use_exc,
                              start_labels=start_labels, edge_ok=edge_ok)

    def on_branch(self, node, test, label):
        """node executes only after `test` took its `label` edge: test
        dominates node, node is reachable through that edge and not reachable
        through test's other edges without passing test again."""
        if not self.dominates(test, node) or node is test:
            return False
        if not self.path_exists(test, lambda n: n is node, avoid=[test], start_labels=[label]):
            return False
        others = [l for _, l in test.succ if l != label and l != "exc"]
        for l in others:
            if self.path_exists(test, lambda n: n is node, avoid=[test], start_labels=[l]):
                return False
        return True

    def fmt_path(self, path):
        out = []
        for n in path:
            if n.kind == "join":
                continue
            out.append(repr(n))
        return out

    def dump(self):
        out = []
        for n in self.nodes:
            out.append(f"{n!r} -> " + ", ".join(f"{m.id}{'/' + l if l else ''}" for m, l in n.succ))
        return "\n".join(out)


def _dom(nodes, root, preds_of):
    """Iterative dominator sets. preds_of gives the predecessors in the
    direction considered."""
    allset = set(nodes)
    # reachable from root in the (reverse of preds) direction: compute succ map
    succ = {n: [] for n in nodes}
    for n in nodes:
        for p in preds_of(n):
            succ[p].append(n)
    reach = {root}
    st = [root]
    while st:
        x = st.pop()
        for y in succ[x]:
            if y not in reach:
                reach.add(y)
                st.append(y)
    dom = {n: set(reach) for n in reach}
    dom[root] = {root}
    changed = True
    order = [n for n in nodes if n in reach and n is not root]
    while changed:
        changed = False
        for n in order:
            ps = [p for p in preds_of(n) if p in reach]
            if not ps:
                continue
            new = set.intersection(*(dom[p] for p in ps)) | {n}
            if new != dom[n]:
                dom[n] = new
                changed = True
    return dom


def _walk_noscope(node):
    """ast.walk that does not enter nested function/lambda/class bodies."""
    st = [node]
    first = True
    while st:
        n = st.pop()
        yield n
        if not first and isinstance(n, (ast.FunctionDef, ast.AsyncFunctionDef, ast.Lambda, ast.ClassDef)):
            continue
        first = False
        st.extend(reversed(list(ast.iter_child_nodes(n))))


def calls_in(node):
    """ast.Call nodes evaluated by a CFG node, in evaluation (post-)order."""
    if node.ast is None or node.kind in ("join", "except", "with_exit"):
        return []
    root = node.ast
    if node.kind == "with_enter":
        root = node.ast.context_expr
    elif node.kind == "for_iter":
        return []
    out = []

    def rec(n):
        if isinstance(n, (ast.FunctionDef, ast.AsyncFunctionDef, ast.Lambda, ast.ClassDef)):
            return
        for ch in ast.iter_child_nodes(n):
            rec(ch)
        if isinstance(n, ast.Call):
            out.append(n)
    if isinstance(root, (ast.FunctionDef, ast.AsyncFunctionDef, ast.ClassDef)):
        return []
    rec(root)
    return out


def cfg_of(func, implicit_raise=False):
    cache = func.__dict__.setdefault("_cfgs", {})
    c = cache.get(implicit_raise)
    if c is None:
        c = cache[implicit_raise] = CFG(func, implicit_raise)
    return c
