"""E8 -- term normaliser for value formulas in the min/max lattice.

An expression is resolved through single-assignment locals and intra-module
helpers with a single return into a term over named leaves and normalised:
min/max are flattened (associativity), sorted and de-duplicated (commutativity,
idempotence); `x if x < y else y` is min(x, y).  Terms are nested tuples:
("max", (t1, t2, ...)), ("min", (...)), ("leaf", text), ("const", v).
"""
import ast
import copy

from .model import AnalysisError, norm


def normalise(t):
    k = t[0]
    if k in ("min", "max"):
        args = []
        for a in t[1]:
            a = normalise(a)
            if a[0] == k:
                args.extend(a[1])
            else:
                args.append(a)
        uniq = []
        for a in sorted(args, key=repr):
            if a not in uniq:
                uniq.append(a)
        if len(uniq) == 1:
            return uniq[0]
        return (k, tuple(uniq))
    return t


class TermBuilder:
    def __init__(self, e, leaves):
        """leaves: callable(func, expr) -> leaf name or None."""
        self.e = e
        self.leaves = leaves

    def term(self, func, expr, env=None, depth=0):
        env = env or {}
        if depth > 12:
            raise AnalysisError("term expansion too deep")
        lf = self.leaves(func, expr, env)
        if lf is not None:
            return ("leaf", lf)
        if isinstance(expr, ast.Constant):
            return ("const", expr.value)
        if isinstance(expr, ast.Name):
            if expr.id in env:
                return env[expr.id]
            defs = self.e.local_defs(func, expr.id)
            if len(defs) == 1:
                return self.term(func, defs[0], env, depth + 1)
            raise AnalysisError(f"cannot resolve `{expr.id}` to a single definition in {func.short}")
        if isinstance(expr, ast.Call) and isinstance(expr.func, ast.Name) and expr.func.id in ("min", "max") and not expr.keywords:
            return (expr.func.id, tuple(self.term(func, a, env, depth + 1) for a in expr.args))
        if isinstance(expr, ast.IfExp) and isinstance(expr.test, ast.Compare) and len(expr.test.ops) == 1:
            l, r = expr.test.left, expr.test.comparators[0]
            op = expr.test.ops[0]
            if norm(expr.body) == norm(l) and norm(expr.orelse) == norm(r):
                if isinstance(op, (ast.Lt, ast.LtE)):
                    return ("min", (self.term(func, l, env, depth + 1), self.term(func, r, env, depth + 1)))
                if isinstance(op, (ast.Gt, ast.GtE)):
                    return ("max", (self.term(func, l, env, depth + 1), self.term(func, r, env, depth + 1)))
        if isinstance(expr, ast.Call):
            qs = self.e.callees_of(expr)
            if len(qs) == 1:
                cf = self.e.prog.funcs[next(iter(qs))]
                rets = [n for n in _rets(cf)]
                if len(rets) == 1 and rets[0].value is not None:
                    sub = {}
                    for p, a in zip(cf.params, expr.args):
                        sub[p] = self.term(func, a, env, depth + 1)
                    return self.term(cf, rets[0].value, sub, depth + 1)
        raise AnalysisError(f"unrecognised value expression `{norm(expr)[:60]}` in {func.short}")


def _rets(func):
    from .model import func_nodes
    return [n for n in func_nodes(func) if isinstance(n, ast.Return)]


def show(t):
    if t[0] in ("min", "max"):
        return f"{t[0]}({', '.join(show(a) for a in t[1])})"
    return str(t[1])
