#!/venv/bin/python
"""Generic mutation sweep: how much of loky's code is *guarded* by some check?

Not a check and not registered in MANIFEST.json: a development tool that measures the
strength of the checks the other way round from the hand-written catalogue.  Generic,
syntax-directed mutation operators are applied to every function of /repo/loky (in
memory; nothing is executed, nothing is written to /repo); each mutant is analysed by
all 20 property checks sharing one engine; a mutant is *detected* if some check
reports a finding that the unmodified tree does not have, *refused* if the analysis
declines (ANALYSIS-ERROR, exit 2 in the real check), *undetected* otherwise.

Undetected mutants are the interesting output: each is either equivalent / outside
every property (logging, repr, Windows arm, ...) or a gap in the rules.  The triage
of the undetected list is recorded in findings/mutsweep/TRIAGE.md.

usage: tools/mutsweep.py [--module loky/process_executor.py] [--ops DEL,NEG,...] [-j 16] [--out DIR]
"""
import argparse
import ast
import copy
import importlib
import json
import os
import sys
import time
from multiprocessing import Pool

VERIF = os.path.dirname(os.path.dirname(os.path.abspath(__file__)))
sys.path.insert(0, VERIF)

from lokysa.model import read_sources, AnalysisError  # noqa: E402
from lokysa.report import Report  # noqa: E402

PROPS = [f"C{i:02d}" for i in range(1, 21)]
from lokysa.selfval.sweep import gen_mutants, bodies, is_log, is_doc, LOG_CALLS  # noqa: E402,F401


_BASE = None


def analyse(sources):
    from lokysa.engine import Engine
    res = {}
    try:
        e = Engine(sources)
    except AnalysisError as ex:
        return {p: (None, f"ANALYSIS-ERROR {ex}") for p in PROPS}
    except Exception as ex:  # noqa
        return {p: (None, f"INTERNAL {type(ex).__name__}: {ex}") for p in PROPS}
    for p in PROPS:
        mod = importlib.import_module(f"lokysa.props.{p}")
        R = Report(p)
        try:
            mod.run(e, R, "quick")
            fs = sorted({(f.rule, f.func, f.construct) for f in R.findings})
            err = ("ANALYSIS-ERROR " + "; ".join(R.analysis_errors)) if R.analysis_errors else None
            res[p] = (fs, err)
        except AnalysisError as ex:
            res[p] = (None, f"ANALYSIS-ERROR {ex}")
        except Exception as ex:  # noqa
            res[p] = (None, f"INTERNAL {type(ex).__name__}: {ex}")
    return res


def _init():
    global _BASE
    base = read_sources()
    _BASE = (base, analyse(base))


def _job(m):
    base, bres = _BASE
    t = time.time()
    src = dict(base)
    src[m["path"]] = m["src"]
    res = analyse(src)
    fired, refused, internal = {}, [], []
    for p in PROPS:
        fs, err = res[p]
        bfs = bres[p][0] or []
        new = [f for f in (fs or []) if f not in bfs]
        if new:
            fired[p] = sorted({f[0] for f in new})
        elif err and err.startswith("INTERNAL"):
            internal.append((p, err[:160]))
        elif err:
            refused.append(p)
    verdict = "detected" if fired else "internal" if internal else "refused" if refused else "undetected"
    return {k: m[k] for k in ("id", "path", "op", "func", "line", "before")} | {"verdict": verdict, "fired": fired, "refused": refused,
                                                                               "internal": internal[:2], "wall": round(time.time() - t, 1)}


def main():
    ap = argparse.ArgumentParser()
    ap.add_argument("--module", action="append")
    ap.add_argument("--ops", default="DEL,NEG,UNWITH,NARROW,UNFINALLY,SWAP,RETNONE,CMP,BOOL")
    ap.add_argument("-j", type=int, default=16)
    ap.add_argument("--out", default=os.path.join(VERIF, "findings", "mutsweep"))
    ap.add_argument("--limit", type=int)
    a = ap.parse_args()
    ops = set(a.ops.split(","))
    base = read_sources()
    mods = a.module or [p for p in sorted(base) if not p.endswith(("_win32.py", "_win_reduction.py", "__init__.py")) and "cloudpickle" not in os.path.basename(p).replace("cloudpickle_wrapper", "")]
    muts = []
    for p in mods:
        if p not in base:
            print("no such module in the source map:", p)
            continue
        muts += gen_mutants(p, base[p], ops)
    if a.limit:
        muts = muts[:a.limit]
    print(f"{len(muts)} mutants over {len(mods)} modules", flush=True)
    t = time.time()
    with Pool(a.j, initializer=_init) as pool:
        res = pool.map(_job, muts, chunksize=2)
    os.makedirs(a.out, exist_ok=True)
    summ = {}
    for r in res:
        summ.setdefault(r["path"], {}).setdefault(r["verdict"], 0)
        summ[r["path"]][r["verdict"]] += 1
    tag = "all" if not a.module else "_".join(os.path.basename(m)[:-3] for m in a.module)
    json.dump({"ops": sorted(ops), "summary": summ, "results": res}, open(os.path.join(a.out, f"sweep_{tag}.json"), "w"), indent=1)
    for p, s in summ.items():
        print(p, s)
    tot = {}
    for r in res:
        tot[r["verdict"]] = tot.get(r["verdict"], 0) + 1
    print("TOTAL", tot, f"{time.time() - t:.0f}s")
    with open(os.path.join(a.out, f"undetected_{tag}.txt"), "w") as fh:
        for r in sorted(res, key=lambda r: (r["path"], r["line"])):
            if r["verdict"] in ("undetected", "internal", "refused"):
                fh.write(f"{r['verdict']:10s} {r['path']}:{r['line']} {r['op']:9s} {r['func']}: {r['before']}  {r['internal'] or r['refused'] or ''}\n")


if __name__ == "__main__":
    main()
