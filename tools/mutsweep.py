#!/venv/bin/python
"""Generic mutation sweep: how much of loky's code is *guarded* by some check?

Not a check and not registered in MANIFEST.json: a development tool that measures the
strength of the checks the other way round from the hand-written catalogue.  Generic,
syntax-directed mutation operators are applied to every function of /repo/loky (in
memory; nothing is executed, nothing is written to /repo); each mutant is analysed by
all 20 property checks sharing one engine; a mutant is *detected* if some check
reports a finding that the unmodified tree does not have, *refused* if the analysis
declines (ANALYSIS-ERROR, exit 2 in the real check), *undetected* otherwise.

Undetected mutants are the interesting output: each is either equivalent / outside
every property (logging, repr, Windows arm, ...) or a gap in the rules.  The triage
of the undetected list is recorded in findings/mutsweep/TRIAGE.md.

usage: tools/mutsweep.py [--module loky/process_executor.py] [--ops DEL,NEG,...] [-j 16] [--out DIR]
"""
import argparse
import ast
import copy
import importlib
import json
import os
import sys
import time
from multiprocessing import Pool

VERIF = os.path.dirname(os.path.dirname(os.path.abspath(__file__)))
sys.path.insert(0, VERIF)

from lokysa.model import read_sources, AnalysisError  # noqa: E402
from lokysa.report import Report  # noqa: E402

PROPS = [f"C{i:02d}" for i in range(1, 21)]
LOG_CALLS = ("mp.util.debug", "util.debug", "mp.util.info", "util.info", "mp.util.sub_debug", "util.sub_debug", "print")


def is_log(stmt):
    return isinstance(stmt, ast.Expr) and isinstance(stmt.value, ast.Call) and ast.unparse(stmt.value.func) in LOG_CALLS


def is_doc(stmt):
    return isinstance(stmt, ast.Expr) and isinstance(stmt.value, ast.Constant) and isinstance(stmt.value.value, str)


def bodies(tree):
    """Yield (owner qualname, list-of-statements) for every statement list inside functions."""
    def rec(node, q):
        for fld in ("body", "orelse", "finalbody"):
            lst = getattr(node, fld, None)
            if isinstance(lst, list) and lst and isinstance(lst[0], ast.stmt):
                if q:
                    yield q, lst
                for s in lst:
                    nq = q
                    if isinstance(s, (ast.FunctionDef, ast.AsyncFunctionDef)):
                        nq = (q + "." if q else "") + s.name
                    elif isinstance(s, ast.ClassDef):
                        nq = (q + "." if q and not q.endswith(">") else "") + s.name
                        # class bodies are not mutated but their methods are
                        for x in rec_class(s, nq):
                            yield x
                        continue
                    yield from rec(s, nq)
        for h in getattr(node, "handlers", []) or []:
            if q:
                yield q, h.body
            for s in h.body:
                yield from rec(s, q)

    def rec_class(c, q):
        for s in c.body:
            if isinstance(s, (ast.FunctionDef, ast.AsyncFunctionDef)):
                yield from rec(s, q + "." + s.name)
            elif isinstance(s, ast.ClassDef):
                yield from rec_class(s, q + "." + s.name)
    yield from rec(tree, "")


def gen_mutants(path, src, ops):
    """Return list of dicts {id, path, op, func, line, before, after_src}."""
    tree = ast.parse(src)
    out = []
    idx = {}
    for q, lst in bodies(tree):
        for i, s in enumerate(lst):
            idx[id(s)] = (q, lst, i)
    counter = [0]

    def emit(op, q, node, mutate):
        """mutate(tree_copy_node_locator) -> applies mutation on a deep copy."""
        t2 = copy.deepcopy(tree)
        # locate the same node in the copy by (lineno, col, type) walk order
        target = None
        for n in ast.walk(t2):
            if type(n) is type(node) and getattr(n, "lineno", None) == getattr(node, "lineno", None) \
                    and getattr(n, "col_offset", None) == getattr(node, "col_offset", None) \
                    and getattr(n, "end_lineno", None) == getattr(node, "end_lineno", None) \
                    and getattr(n, "end_col_offset", None) == getattr(node, "end_col_offset", None):
                target = n
                break
        if target is None:
            return
        if mutate(t2, target) is False:
            return
        ast.fix_missing_locations(t2)
        try:
            new_src = ast.unparse(t2) + "\n"
            compile(new_src, path, "exec")
        except Exception:
            return
        counter[0] += 1
        out.append({"id": f"{os.path.basename(path)}:{node.lineno}:{op}:{counter[0]}", "path": path, "op": op, "func": q, "line": node.lineno,
                    "before": ast.unparse(node).split("\n")[0][:110], "src": new_src})

    def parent_list(t2, target):
        for n in ast.walk(t2):
            for fld in ("body", "orelse", "finalbody"):
                lst = getattr(n, fld, None)
                if isinstance(lst, list):
                    for i, s in enumerate(lst):
                        if s is target:
                            return lst, i
            for h in getattr(n, "handlers", []) or []:
                for i, s in enumerate(h.body):
                    if s is target:
                        return h.body, i
        return None, None

    for q, lst in bodies(tree):
        for i, s in enumerate(lst):
            if is_doc(s) or is_log(s):
                continue
            if "DEL" in ops and isinstance(s, (ast.Expr, ast.Assign, ast.AugAssign, ast.Delete)):
                def m(t2, tg):
                    l2, j = parent_list(t2, tg)
                    if l2 is None:
                        return False
                    l2[j] = ast.Pass()
                emit("DEL", q, s, m)
            if "NEG" in ops and isinstance(s, (ast.If, ast.While)) and not (isinstance(s.test, ast.Constant)):
                def m(t2, tg):
                    tg.test = ast.UnaryOp(op=ast.Not(), operand=tg.test)
                emit("NEG", q, s, m)
            if "UNWITH" in ops and isinstance(s, ast.With):
                def m(t2, tg):
                    l2, j = parent_list(t2, tg)
                    if l2 is None:
                        return False
                    # keep `as` bindings alive: only unwrap when no optional_vars
                    if any(it.optional_vars is not None for it in tg.items):
                        return False
                    l2[j:j + 1] = tg.body
                emit("UNWITH", q, s, m)
            if "NARROW" in ops and isinstance(s, ast.Try) and s.handlers:
                for hi, h in enumerate(s.handlers):
                    def m(t2, tg, hi=hi):
                        hh = tg.handlers[hi]
                        cur = ast.unparse(hh.type) if hh.type is not None else "bare"
                        if cur in ("bare", "BaseException"):
                            hh.type = ast.Name(id="Exception", ctx=ast.Load())
                        elif cur == "Exception":
                            hh.type = ast.Name(id="OSError", ctx=ast.Load())
                        else:
                            hh.type = ast.Name(id="ZeroDivisionError", ctx=ast.Load())
                    emit(f"NARROW{hi}", q, s, m)
            if "UNFINALLY" in ops and isinstance(s, ast.Try) and s.finalbody and not s.handlers:
                def m(t2, tg):
                    l2, j = parent_list(t2, tg)
                    if l2 is None:
                        return False
                    l2[j:j + 1] = tg.body + tg.finalbody
                emit("UNFINALLY", q, s, m)
            if "SWAP" in ops and i + 1 < len(lst) and isinstance(s, (ast.Expr, ast.Assign, ast.AugAssign)) \
                    and isinstance(lst[i + 1], (ast.Expr, ast.Assign, ast.AugAssign)) and not is_log(lst[i + 1]):
                def m(t2, tg):
                    l2, j = parent_list(t2, tg)
                    if l2 is None or j + 1 >= len(l2):
                        return False
                    l2[j], l2[j + 1] = l2[j + 1], l2[j]
                emit("SWAP", q, s, m)
            if "RETNONE" in ops and isinstance(s, ast.Return) and s.value is not None and not isinstance(s.value, ast.Constant):
                def m(t2, tg):
                    tg.value = None
                emit("RETNONE", q, s, m)
            if "CMP" in ops:
                for c in ast.walk(s) if isinstance(s, (ast.If, ast.While, ast.Assign, ast.Return, ast.Expr)) else ():
                    if isinstance(c, ast.Compare) and len(c.ops) == 1 and isinstance(c.ops[0], (ast.Lt, ast.LtE, ast.Gt, ast.GtE)) \
                            and getattr(c, "lineno", None) is not None:
                        # only compares belonging to this statement's own header
                        if isinstance(s, (ast.If, ast.While)) and not any(x is c for x in ast.walk(s.test)):
                            continue

                        def m(t2, tg):
                            sw = {ast.Lt: ast.LtE, ast.LtE: ast.Lt, ast.Gt: ast.GtE, ast.GtE: ast.Gt}
                            tg.ops = [sw[type(tg.ops[0])]()]
                        emit("CMP", q, c, m)
            if "BOOL" in ops and isinstance(s, (ast.Expr, ast.Assign, ast.Return)):
                for c in ast.walk(s):
                    if isinstance(c, ast.Call):
                        for k in c.keywords:
                            if isinstance(k.value, ast.Constant) and isinstance(k.value.value, bool):
                                def m(t2, tg):
                                    tg.value = not tg.value
                                emit("BOOL", q, k.value, m)
    return out


_BASE = None


def analyse(sources):
    from lokysa.engine import Engine
    res = {}
    try:
        e = Engine(sources)
    except AnalysisError as ex:
        return {p: (None, f"ANALYSIS-ERROR {ex}") for p in PROPS}
    except Exception as ex:  # noqa
        return {p: (None, f"INTERNAL {type(ex).__name__}: {ex}") for p in PROPS}
    for p in PROPS:
        mod = importlib.import_module(f"lokysa.props.{p}")
        R = Report(p)
        try:
            mod.run(e, R, "quick")
            fs = sorted({(f.rule, f.func, f.construct) for f in R.findings})
            err = ("ANALYSIS-ERROR " + "; ".join(R.analysis_errors)) if R.analysis_errors else None
            res[p] = (fs, err)
        except AnalysisError as ex:
            res[p] = (None, f"ANALYSIS-ERROR {ex}")
        except Exception as ex:  # noqa
            res[p] = (None, f"INTERNAL {type(ex).__name__}: {ex}")
    return res


def _init():
    global _BASE
    base = read_sources()
    _BASE = (base, analyse(base))


def _job(m):
    base, bres = _BASE
    t = time.time()
    src = dict(base)
    src[m["path"]] = m["src"]
    res = analyse(src)
    fired, refused, internal = {}, [], []
    for p in PROPS:
        fs, err = res[p]
        bfs = bres[p][0] or []
        new = [f for f in (fs or []) if f not in bfs]
        if new:
            fired[p] = sorted({f[0] for f in new})
        elif err and err.startswith("INTERNAL"):
            internal.append((p, err[:160]))
        elif err:
            refused.append(p)
    verdict = "detected" if fired else "internal" if internal else "refused" if refused else "undetected"
    return {k: m[k] for k in ("id", "path", "op", "func", "line", "before")} | {"verdict": verdict, "fired": fired, "refused": refused,
                                                                               "internal": internal[:2], "wall": round(time.time() - t, 1)}


def main():
    ap = argparse.ArgumentParser()
    ap.add_argument("--module", action="append")
    ap.add_argument("--ops", default="DEL,NEG,UNWITH,NARROW,UNFINALLY,SWAP,RETNONE,CMP,BOOL")
    ap.add_argument("-j", type=int, default=16)
    ap.add_argument("--out", default=os.path.join(VERIF, "findings", "mutsweep"))
    ap.add_argument("--limit", type=int)
    a = ap.parse_args()
    ops = set(a.ops.split(","))
    base = read_sources()
    mods = a.module or [p for p in sorted(base) if not p.endswith(("_win32.py", "_win_reduction.py", "__init__.py")) and "cloudpickle" not in os.path.basename(p).replace("cloudpickle_wrapper", "")]
    muts = []
    for p in mods:
        if p not in base:
            print("no such module in the source map:", p)
            continue
        muts += gen_mutants(p, base[p], ops)
    if a.limit:
        muts = muts[:a.limit]
    print(f"{len(muts)} mutants over {len(mods)} modules", flush=True)
    t = time.time()
    with Pool(a.j, initializer=_init) as pool:
        res = pool.map(_job, muts, chunksize=2)
    os.makedirs(a.out, exist_ok=True)
    summ = {}
    for r in res:
        summ.setdefault(r["path"], {}).setdefault(r["verdict"], 0)
        summ[r["path"]][r["verdict"]] += 1
    tag = "all" if not a.module else "_".join(os.path.basename(m)[:-3] for m in a.module)
    json.dump({"ops": sorted(ops), "summary": summ, "results": res}, open(os.path.join(a.out, f"sweep_{tag}.json"), "w"), indent=1)
    for p, s in summ.items():
        print(p, s)
    tot = {}
    for r in res:
        tot[r["verdict"]] = tot.get(r["verdict"], 0) + 1
    print("TOTAL", tot, f"{time.time() - t:.0f}s")
    with open(os.path.join(a.out, f"undetected_{tag}.txt"), "w") as fh:
        for r in sorted(res, key=lambda r: (r["path"], r["line"])):
            if r["verdict"] in ("undetected", "internal", "refused"):
                fh.write(f"{r['verdict']:10s} {r['path']}:{r['line']} {r['op']:9s} {r['func']}: {r['before']}  {r['internal'] or r['refused'] or ''}\n")


if __name__ == "__main__":
    main()
