#!/venv/bin/python
"""Run every registered quick check against a seeded change.

usage: tools/run_seeded.py <patch.diff> [--json out.json]

Applies the patch to /repo (git apply), runs all checks with evidence redirected
to a scratch directory, and ALWAYS restores /repo (git checkout -- .).  Prints,
per property, the exit code and the rules that fired.
"""
import json, os, re, subprocess, sys, tempfile, shutil

REPO = "/repo"
VERIF = os.path.dirname(os.path.dirname(os.path.abspath(__file__)))


def main():
    patch = os.path.abspath(sys.argv[1])
    out = sys.argv[sys.argv.index("--json") + 1] if "--json" in sys.argv else None
    st = subprocess.run(["git", "-C", REPO, "status", "--porcelain", "--", "loky"], capture_output=True, text=True).stdout.strip()
    if st:
        print("refusing: /repo has local modifications under loky/:\n" + st)
        return 2
    scratch = tempfile.mkdtemp(prefix="lokysa_seeded_")
    res = {}
    try:
        # a seed made against an older commit of /repo may need reduced context (the fix: commits moved lines)
        for extra in ([], ["-C1"]):
            if subprocess.run(["git", "-C", REPO, "apply"] + extra + [patch], capture_output=True).returncode == 0:
                break
        else:
            raise SystemExit(f"patch does not apply to /repo: {patch}")
        env = dict(os.environ, LOKYSA_EVIDENCE_DIR=scratch)
        man = json.load(open(os.path.join(VERIF, "MANIFEST.json")))
        for c in man["checks"]:
            p = subprocess.run(c["quick_cmd"], shell=True, cwd=VERIF, env=env, capture_output=True, text=True)
            rules = sorted(set(re.findall(r"rule=(R-[A-Z-]+)", p.stdout)))
            errs = [l for l in p.stdout.splitlines() if l.startswith("ANALYSIS-ERROR")]
            res[c["property_id"]] = {"exit": p.returncode, "rules": rules, "violations": p.stdout.count("VIOLATION property="),
                                     "analysis_errors": errs[:3],
                                     "first": next((l.strip() for l in p.stdout.splitlines() if l.strip().startswith("rule=")), "")[:300]}
    finally:
        subprocess.run(["git", "-C", REPO, "checkout", "--", "."], check=False)
        shutil.rmtree(scratch, ignore_errors=True)
    fired = {k: v for k, v in res.items() if v["exit"] != 0}
    for k, v in sorted(res.items()):
        if v["exit"] != 0:
            print(f"{k}: exit {v['exit']} rules={v['rules']} {v['analysis_errors'][:1]}\n     {v['first']}")
    print(f"fired: {sorted(fired)}" if fired else "NOT DETECTED by any check")
    if out:
        json.dump(res, open(out, "w"), indent=1)
    st = subprocess.run(["git", "-C", REPO, "status", "--porcelain", "--", "loky"], capture_output=True, text=True).stdout.strip()
    assert not st, "repo not restored!"
    return 0


if __name__ == "__main__":
    sys.exit(main())
