#!/venv/bin/python
"""Run every registered quick check against a seeded change.

usage: tools/run_seeded.py <patch.diff> [--json out.json] [--in-place] [--base <commit>] [--nopatch]

Applies the patch to a scratch copy of /repo's tracked loky/ tree (or, with --in-place, to /repo
itself: git apply, and ALWAYS git checkout -- . afterwards), runs every registered quick check
against it with the evidence redirected to a scratch directory.  Prints, per property, the exit
code and the rules that fired.
"""
import json, os, re, subprocess, sys, tempfile, shutil

REPO = "/repo"
VERIF = os.path.dirname(os.path.dirname(os.path.abspath(__file__)))


def main():
    patch = os.path.abspath(sys.argv[1])
    out = sys.argv[sys.argv.index("--json") + 1] if "--json" in sys.argv else None
    # The patch is applied to a scratch export of /repo's HEAD + working tree (not to /repo itself) and the checks are
    # pointed at it with LOKYSA_REPO: several evaluations, the self-validation and the registered checks can then run
    # side by side.  `--in-place` applies it to /repo instead (git apply ... git checkout -- .), as a user would.
    in_place = "--in-place" in sys.argv
    scratch = tempfile.mkdtemp(prefix="lokysa_seeded_")
    res = {}
    try:
        if in_place:
            st = subprocess.run(["git", "-C", REPO, "status", "--porcelain", "--", "loky"], capture_output=True, text=True).stdout.strip()
            if st:
                print("refusing: /repo has local modifications under loky/:\n" + st)
                return 2
            tree = REPO
        else:
            tree = os.path.join(scratch, "tree")
            os.makedirs(tree)
            base = sys.argv[sys.argv.index("--base") + 1] if "--base" in sys.argv else None
            if base:
                # an older commit of /repo (a patch written before later fix: commits touched the same lines)
                subprocess.run(f"git -C {REPO} archive {base} loky | tar -xf - -C {tree}", shell=True, check=True)
            else:
                subprocess.run(f"git -C {REPO} ls-files -z -- loky | (cd {REPO} && xargs -0 tar -cf - ) | tar -xf - -C {tree}", shell=True, check=True)
            subprocess.run(["git", "init", "-q", tree], check=True)
        # a seed made against an older commit of /repo may need reduced context (the fix: commits moved lines)
        for extra in ([], ["-C1"]):
            if "--nopatch" in sys.argv or subprocess.run(["git", "-C", tree, "apply"] + extra + [patch], capture_output=True).returncode == 0:
                break
        else:
            # last resort: a three-way merge against the blobs the patch names (needs the object store: a throw-away worktree)
            ok3 = False
            if not in_place and "--base" not in sys.argv and "--3way" in sys.argv:   # opt-in: a clean textual merge can still be a broken program (a rename merged with a later fix), look at the result
                wt = os.path.join(scratch, "wt")
                if subprocess.run(["git", "-C", REPO, "worktree", "add", "-f", "--detach", wt, "HEAD"], capture_output=True).returncode == 0:
                    try:
                        if subprocess.run(["git", "-C", wt, "apply", "-3", patch], capture_output=True).returncode == 0:
                            shutil.rmtree(os.path.join(tree, "loky"))
                            shutil.copytree(os.path.join(wt, "loky"), os.path.join(tree, "loky"))
                            ok3 = True
                    finally:
                        subprocess.run(["git", "-C", REPO, "worktree", "remove", "--force", wt], capture_output=True)
            if not ok3:
                raise SystemExit(f"patch does not apply: {patch}")
        ev = os.path.join(scratch, "evidence")
        os.makedirs(ev)
        env = dict(os.environ, LOKYSA_EVIDENCE_DIR=ev, LOKYSA_REPO=tree)
        man = json.load(open(os.path.join(VERIF, "MANIFEST.json")))
        for c in man["checks"]:
            p = subprocess.run(c["quick_cmd"], shell=True, cwd=VERIF, env=env, capture_output=True, text=True)
            rules = sorted(set(re.findall(r"rule=(R-[A-Z-]+)", p.stdout)))
            errs = [l for l in p.stdout.splitlines() if l.startswith("ANALYSIS-ERROR")]
            res[c["property_id"]] = {"exit": p.returncode, "rules": rules, "violations": p.stdout.count("VIOLATION property="),
                                     "analysis_errors": errs[:3],
                                     "first": next((l.strip() for l in p.stdout.splitlines() if l.strip().startswith("rule=")), "")[:300]}
    finally:
        if in_place:
            subprocess.run(["git", "-C", REPO, "checkout", "--", "."], check=False)
        shutil.rmtree(scratch, ignore_errors=True)
    fired = {k: v for k, v in res.items() if v["exit"] != 0}
    for k, v in sorted(res.items()):
        if v["exit"] != 0:
            print(f"{k}: exit {v['exit']} rules={v['rules']} {v['analysis_errors'][:1]}\n     {v['first']}")
    print(f"fired: {sorted(fired)}" if fired else "NOT DETECTED by any check")
    if out:
        json.dump(res, open(out, "w"), indent=1)
    if in_place:
        st = subprocess.run(["git", "-C", REPO, "status", "--porcelain", "--", "loky"], capture_output=True, text=True).stdout.strip()
        assert not st, "repo not restored!"
    return 0


if __name__ == "__main__":
    sys.exit(main())
