#!/venv/bin/python
"""Evaluate every seeded change under /verif/seeded against (a) the checks as they
were before any seeded change was looked at (git tag pre-seed, worktree
/tmp/verif_preseed) and (b) the current checks; record the result in each
meta.json under "lokysa" and print the markdown table for DESIGN.md 8.6."""
import json, os, subprocess, sys, glob

VERIF = os.path.dirname(os.path.dirname(os.path.abspath(__file__)))
PRE = "/tmp/verif_preseed"
only = [a for a in sys.argv[1:] if not a.startswith("--")] or None
from concurrent.futures import ThreadPoolExecutor
rows = []


def one(d):
    sid = os.path.basename(d)
    patch = os.path.join(d, "patch.diff")
    if not os.path.exists(patch):
        return None
    meta_p = os.path.join(d, "meta.json")
    meta = json.load(open(meta_p)) if os.path.exists(meta_p) else {}
    if only is None or sid in only:
        res = {}
        for tag, root in (("pre_seed", PRE), ("current", VERIF)):
            if not os.path.isdir(root):
                continue
            if tag == "pre_seed" and "pre_seed" in meta.get("lokysa", {}) and "--redo-pre" not in sys.argv:
                res[tag] = meta["lokysa"]["pre_seed"]      # the tagged checks do not change
                continue
            out = f"/tmp/eval_{sid}_{tag}.json"
            if os.path.exists(out):
                os.unlink(out)
            pr = subprocess.run(["/venv/bin/python", os.path.join(root, "tools", "run_seeded.py"), patch, "--json", out], capture_output=True, text=True)
            if not os.path.exists(out):
                sys.exit(f"run_seeded failed for {sid} ({tag}): {pr.stdout[-300:]} {pr.stderr[-300:]}")
            r = json.load(open(out))
            res[tag] = {k: {"exit": v["exit"], "rules": v["rules"]} for k, v in r.items() if v["exit"] != 0}
        # "at_collection" freezes what the checks said the first time this change was evaluated
        # (before any strengthening prompted by it); it is never overwritten.
        prev = meta.get("lokysa", {})
        if "at_collection" in prev:
            res["at_collection"] = prev["at_collection"]
        else:
            head = subprocess.run(["git", "-C", VERIF, "rev-parse", "--short", "HEAD"], capture_output=True, text=True).stdout.strip()
            res["at_collection"] = {"verif_commit": head, "result": res.get("current", {})}
        meta["lokysa"] = res
        json.dump(meta, open(meta_p, "w"), indent=1)
    res = meta.get("lokysa", {})
    def fmt(x):
        if not x:
            return "not detected"
        return "; ".join(f"{k}: {'/'.join(v['rules']) or ('ANALYSIS-ERROR' if v['exit'] == 2 else '?')}" for k, v in sorted(x.items()))
    return ((sid, meta.get("property", sid[:3]), (meta.get("summary") or "")[:160].replace("|", "/"), fmt(res.get("pre_seed")), fmt((res.get("at_collection") or {}).get("result")), fmt(res.get("current"))))
with ThreadPoolExecutor(5) as ex:
    rows = [r for r in ex.map(one, sorted(glob.glob(os.path.join(VERIF, "seeded", "C*")))) if r]
print("| seed | property | change | checks before any seed (tag pre-seed) | checks when the change was collected | current checks |")
print("|---|---|---|---|---|---|")
for r in rows:
    print("| " + " | ".join(r) + " |")
