#!/bin/bash
# usage: confirm_parallel.sh <jobs> <seed id>...   -- confirm the given seeded changes, <jobs> at a time (see confirm_queue.sh)
jobs=$1; shift
one() {
  id=$1; d=/verif/seeded/$id
  [ -f $d/confirm.txt ] && exit 0
  prop=$(echo $id | cut -c1-3)
  case $id in *-r2) wt=/tmp/seed2_$prop;; *-r3) wt=/tmp/seed3_$prop;; *-r4) wt=/tmp/seed4_$prop;; *-r5) wt=/tmp/seed5_$prop;; *-r6) wt=/tmp/seed6_$prop;; *-r7) wt=/tmp/seed7_$prop;; *) wt=/tmp/seed_$id;; esac
  /verif/tools/confirm_seed.sh $id $d full $wt > /tmp/confirm_${id}_full.log 2>&1
  { cat /tmp/confirm_${id}_full.verdict; echo "--- tests summary:"; grep -E "passed|failed|^FAILED|^ERROR" /tmp/confirm_${id}_full.tests.txt | tail -6; echo "--- demo without:"; grep -E "PASS|FAIL|exit=" /tmp/confirm_${id}_full.demo_without.txt | tail -3; echo "--- demo with:"; grep -E "PASS|FAIL|exit=" /tmp/confirm_${id}_full.demo_with.txt | tail -3; } > $d/confirm.txt 2>&1
}
export -f one
printf "%s\n" "$@" | xargs -P $jobs -I{} bash -c 'one {}'
