#!/venv/bin/python
"""Local-rename robustness test (development tool): in one function at a time, every local variable (not a parameter, not
declared global/nonlocal) is renamed consistently (in memory); all 20 checks must report exactly what they report on the
unmodified tree.  A refusal (ANALYSIS-ERROR) is tolerated but listed; a new finding is a FALSE-ALARM of the rule."""
import ast, sys, os
from multiprocessing import Pool
VERIF = os.path.dirname(os.path.dirname(os.path.abspath(__file__)))
sys.path.insert(0, VERIF); sys.path.insert(0, os.path.join(VERIF, "tools"))
from lokysa.model import read_sources  # noqa: E402
import mutsweep as M  # noqa: E402


def funcs(tree):
    out = []
    def rec(node, q):
        for ch in ast.iter_child_nodes(node):
            if isinstance(ch, (ast.FunctionDef, ast.AsyncFunctionDef)):
                out.append(((q + "." if q else "") + ch.name, ch)); rec(ch, (q + "." if q else "") + ch.name)
            elif isinstance(ch, ast.ClassDef):
                rec(ch, (q + "." if q else "") + ch.name)
            else:
                rec(ch, q)
    rec(tree, "")
    return out


def locals_of(fn):
    params = {a.arg for a in fn.args.posonlyargs + fn.args.args + fn.args.kwonlyargs} | ({fn.args.vararg.arg} if fn.args.vararg else set()) | ({fn.args.kwarg.arg} if fn.args.kwarg else set())
    glob, bound = set(), set()
    def walk(n):
        for ch in ast.iter_child_nodes(n):
            if isinstance(ch, (ast.FunctionDef, ast.AsyncFunctionDef, ast.ClassDef, ast.Lambda)):
                if isinstance(ch, (ast.FunctionDef, ast.ClassDef)):
                    bound.add(ch.name)
                continue
            if isinstance(ch, (ast.Global, ast.Nonlocal)):
                glob.update(ch.names)
            if isinstance(ch, ast.Name) and isinstance(ch.ctx, (ast.Store, ast.Del)):
                bound.add(ch.id)
            if isinstance(ch, ast.ExceptHandler) and ch.name:
                bound.add(ch.name)
            if isinstance(ch, (ast.Import, ast.ImportFrom)):
                continue  # imported names keep their names
            walk(ch)
    walk(fn)
    nested_defs = {ch.name for ch in ast.walk(fn) if isinstance(ch, (ast.FunctionDef, ast.ClassDef)) and ch is not fn}
    return bound - params - glob - nested_defs


class Ren(ast.NodeTransformer):
    def __init__(self, names): self.names = names
    def visit_FunctionDef(self, n):
        # a nested function that rebinds a name (parameter or local) has its own variable of that name
        params = {a.arg for a in n.args.posonlyargs + n.args.args + n.args.kwonlyargs} | ({n.args.vararg.arg} if n.args.vararg else set()) | ({n.args.kwarg.arg} if n.args.kwarg else set())
        own = params | locals_of(n)
        inner = Ren(self.names - own)
        n.body = [inner.visit(x) for x in n.body]
        n.args.defaults = [self.visit(d) for d in n.args.defaults]
        n.decorator_list = [self.visit(d) for d in n.decorator_list]
        return n
    def visit_Lambda(self, n):
        params = {a.arg for a in n.args.args}
        n.body = Ren(self.names - params).visit(n.body)
        return n
    def visit_Name(self, n):
        if n.id in self.names: n.id = n.id + "_l"
        return n
    def visit_ExceptHandler(self, n):
        if n.name in self.names: n.name = n.name + "_l"
        self.generic_visit(n); return n
    def visit_Global(self, n): return n


def variants(path, src):
    tree = ast.parse(src)
    for q, fn in funcs(tree):
        names = locals_of(fn)
        if not names: continue
        import copy
        t2 = copy.deepcopy(tree)
        target = [f for qq, f in funcs(t2) if qq == q][0]
        r = Ren(names)
        target.body = [r.visit(x) for x in target.body]
        try:
            new = ast.unparse(t2) + "\n"; compile(new, path, "exec")
        except Exception:
            continue
        yield {"path": path, "func": q, "names": sorted(names), "src": new}


def job(v):
    base, bres = M._BASE
    src = dict(base); src[v["path"]] = v["src"]
    res = M.analyse(src)
    fa, rf = {}, {}
    for p, (fs, err) in res.items():
        new = [f for f in (fs or []) if f not in (bres[p][0] or [])]
        if new: fa[p] = sorted({f[0] + ":" + f[1] for f in new})
        elif err and not bres[p][1]: rf[p] = err[:140]
    return v["path"], v["func"], v["names"], fa, rf


if __name__ == "__main__":
    base = read_sources()
    vs = [v for p, s in sorted(base.items()) if not p.endswith(("_win32.py", "_win_reduction.py")) for v in variants(p, s)]
    print(len(vs), "variants", flush=True)
    nfa = 0
    with Pool(12, initializer=M._init) as pool:
        for path, func, names, fa, rf in pool.imap_unordered(job, vs):
            if fa or rf:
                nfa += bool(fa)
                print(("FALSE-ALARM " if fa else "refused     ") + f"{path}:{func}  {fa or ''} {rf or ''}"[:400], flush=True)
    print("done; false alarms:", nfa)
