#!/bin/bash
# usage: confirm_seed.sh <id> <seed dir containing patch.diff and demo.py> [full|quick]
# Confirms a seeded change in a fresh scratch worktree of /repo: demo passes without the change,
# fails with it, and the existing test suite still passes with it.  Results in /tmp/confirm_<id>.*
id=$1; src=$2; mode=${3:-full}
# the demos often hard-code the path of the worktree they were written in: reuse that path
# (the sub-agent's own worktree is discarded first; its deliverables were copied to $src)
wt=${4:-/tmp/confirm_$id}
out=/tmp/confirm_${id}_$mode
git -C /repo worktree remove --force $wt 2>/dev/null; rm -rf $wt; git -C /repo worktree prune
git -C /repo worktree add -q --detach $wt HEAD || exit 3
demo=$(ls $src/demo.py $src/test_demo.py 2>/dev/null | head -1)
mkdir -p $wt/_seed; cp $src/*.py $wt/_seed/
dn=_seed/$(basename $demo)
run_demo() {  # $1 = tag
  (cd $wt && PYTHONPATH=$wt setsid timeout -k 2 400 /venv/bin/python $dn > $out.demo_$1.txt 2>&1 < /dev/null; echo "exit=$?" >> $out.demo_$1.txt)
}
run_demo without
git -C $wt apply $src/patch.diff 2>/dev/null || git -C $wt apply -C1 $src/patch.diff || { echo "patch does not apply" > $out.verdict; git -C /repo worktree remove --force $wt; exit 4; }
(cd $wt && /venv/bin/python -m compileall -q loky > $out.compile.txt 2>&1; echo "exit=$?" >> $out.compile.txt)
run_demo with
if [ "$mode" = full ]; then
  (cd $wt && PYTHONPATH=$wt setsid timeout -k 5 3300 /venv/bin/python -m pytest -q -p no:cacheprovider --timeout=900 --continue-on-collection-errors --deselect tests/test_loky_module.py::test_cpu_count_cgroup_limit --deselect tests/test_reusable_executor.py::TestTerminateExecutor::test_sigkill_shutdown_leaks_workers > $out.tests.txt 2>&1 < /dev/null; echo "exit=$?" >> $out.tests.txt)
fi
{ echo "without: $(grep -E "^exit=" $out.demo_without.txt | tail -1)"; echo "with: $(grep -E "^exit=" $out.demo_with.txt | tail -1)"; echo "compile: $(tail -1 $out.compile.txt)"; [ "$mode" = full ] && echo "tests: $(tail -3 $out.tests.txt | tr '\n' ' ')"; } > $out.verdict
git -C /repo worktree remove --force $wt
cat $out.verdict
