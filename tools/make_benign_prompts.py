#!/venv/bin/python
"""Prompts for sub-agents that produce BEHAVIOUR-PRESERVING refactorings of loky (false-alarm hunting): every check must stay
silent on them.  The agents see nothing of /verif.   usage: tools/make_benign_prompts.py"""
AREAS = {
    "B01": ("loky/process_executor.py", "the class _ExecutorManagerThread (the executor manager thread: run, add_call_item_to_queue, wait_result_broken_or_wakeup, process_result_item, is_shutting_down, terminate_broken, flag_executor_shutting_down, kill_workers, shutdown_workers, join_executor_internals)"),
    "B02": ("loky/process_executor.py", "the module-level functions and small classes of the first half of the file: _ThreadWakeup, _python_exit, _ExecutorFlags, _WorkItem/_ResultItem/_CallItem, _SafeQueue, _get_chunks/_process_chunk, _sendback_result, _process_worker, _ExceptionWithTraceback/_rebuild_exc"),
    "B03": ("loky/process_executor.py", "the class ProcessPoolExecutor (__init__, _setup_queues, _start_executor_manager_thread, _adjust_process_count, _ensure_executor_running, submit, map, shutdown) and _check_max_depth / _chain_from_iterable_of_lists"),
    "B04": ("loky/reusable_executor.py", "the whole file (get_reusable_executor, _ReusablePoolExecutor.get_reusable_executor, submit, _resize, _wait_job_completion, _setup_queues)"),
    "B05": ("loky/backend/queues.py", "the whole file (Queue.__init__/__getstate__/__setstate__/put/_start_thread/_feed/_on_queue_feeder_error, SimpleQueue)"),
    "B06": ("loky/backend/resource_tracker.py", "the whole file (ResourceTracker.ensure_running/_check_alive/maybe_unlink/_send, main and its nested helpers, spawnv_passfds)"),
    "B07": ("loky/backend/synchronize.py", "the whole file (SemLock, Semaphore, BoundedSemaphore, Lock, RLock, Condition, Event)"),
    "B08": ("loky/backend/popen_loky_posix.py loky/backend/process.py loky/backend/spawn.py loky/backend/fork_exec.py", "worker process launch: Popen (poll/wait/terminate/_launch), LokyProcess/LokyInitMainProcess, get_preparation_data/prepare, fork_exec"),
    "B09": ("loky/backend/reduction.py loky/cloudpickle_wrapper.py loky/backend/_posix_reduction.py", "pickling customisation: set_loky_pickler and its CustomizablePickler, register/dump/dumps, the wrappers of wrap_non_picklable_objects"),
    "B10": ("loky/backend/context.py loky/backend/utils.py", "cpu_count and its helpers (cgroup, affinity, physical cores), get_context/LokyContext, kill_process_tree and its helpers, get_exitcodes_terminated_worker"),
}
for bid, (files, what) in AREAS.items():
    wt = f"/tmp/benign_{bid}"
    txt = f"""You are helping test a static analyser for false alarms. The analysed code is a Python library (joblib/loky, a robust ProcessPoolExecutor). You work ONLY in your own scratch git worktree: {wt} (package in `loky/`, tests in `tests/`). Do NOT touch /repo or /verif, and do not look at /verif at all.

YOUR TASK: act as a careful maintainer doing clean-up work on: {files} -- {what}.
Produce SIX independent, strictly BEHAVIOUR-PRESERVING refactorings of that code, each as its own patch against the unmodified worktree (not stacked). They must be semantically equivalent to the original for every input, schedule and failure (same operations, same order of externally visible effects, same locks held around them, same exceptions caught and raised, same values) -- only the way the code is written changes. Make them realistic and DIVERSE in kind, each touching 5-40 lines; for example:
 - extract a few statements into a private helper function/method (or inline a small helper into its only caller);
 - rename local variables, private attributes or private functions consistently (all uses!);
 - restructure control flow without changing it: guard clause / early `continue` instead of nested `if`, `if/else` arms swapped with the condition negated, `while True: ... if c: break` vs `while not c`, a `for` over a range instead of a counting `while`, merging or splitting nested conditions (respecting short-circuit order), a conditional expression instead of an if/else assignment, walrus;
 - introduce or remove a local variable for a sub-expression (only where evaluation order and count stay the same);
 - `with lock:` written as try/finally acquire/release or the reverse; contextlib helpers; `try/finally` reshaped equivalently;
 - data-structure idioms with identical semantics: `dict.pop(k, None)` vs `if k in d: del d[k]` ONLY where it is really identical in the threading context, `list(d.items())` kept wherever a snapshot matters, f-string vs % formatting of loky's own strings (never of user objects), tuple unpacking, `x = x + 1` vs `x += 1`;
 - moving a statement across others ONLY when they are provably independent (no shared state, no exception-order change) -- if in doubt, don't;
 - comments, docstrings, type hints, import grouping as part of a patch are fine but not as the whole patch.
Do NOT fix bugs, do not change defaults, messages shown to users, exception types, timeouts, orders of side effects, lock scopes, or what is pickled. If you are not sure a transformation is exactly equivalent, choose another one.

DELIVERABLES in {wt}/_out/: patch1.diff ... patch6.diff (each = `git -C {wt} diff -- loky` with only that refactoring applied; restore with `git -C {wt} checkout -- loky` between patches), and notes.json = [{{"patch": "patch1.diff", "kind": "...", "what": "...one or two sentences...", "why_equivalent": "..."}} ...].

CHECK YOURSELF: each patch must compile (`/venv/bin/python -m compileall -q {wt}/loky`) and the relevant test files must still pass with it, e.g.
    (cd {wt} && PYTHONPATH={wt} setsid -w timeout -k 5 1500 /venv/bin/python -m pytest -x -q -p no:cacheprovider --timeout=300 tests/test_reusable_executor.py > {wt}_out.txt 2>&1 < /dev/null; true)
then read {wt}_out.txt (pick the test files that exercise the code you touched: tests/test_reusable_executor.py, tests/test_process_executor_loky.py (slow) or tests/_executor_mixin... , tests/test_resource_tracker.py, tests/test_synchronize.py, tests/test_loky_backend.py, tests/test_loky_module.py, tests/test_cloudpickle_wrapper.py, tests/test_queues... -- list the directory). Two tests are known to fail on this machine regardless: tests/test_loky_module.py::test_cpu_count_cgroup_limit and tests/test_reusable_executor.py::TestTerminateExecutor::test_sigkill_shutdown_leaks_workers.
Process hygiene: scripts that start loky workers can leave orphaned processes holding pipes, so NEVER pipe the output of such a command (no `| tail`); redirect to a file, use `setsid -w timeout ...` as above, read the file afterwards. Do not use `git stash`. Do not delete anything under /dev/shm. Do not use `pkill -f` with a pattern appearing in your own command line. Python is /venv/bin/python (3.12). No network.

In your final answer list the six patches with their kind and one line each, and the test commands/outcomes.
"""
    open(f"/tmp/benign_prompt_{bid}.txt", "w").write(txt)
    print(bid, wt)
