#!/venv/bin/python
"""Turn findings/mutsweep/sweep_all.json into findings/mutsweep/TRIAGE.md: every generic mutant that no check reported is put
into a class with a one-line reason; what fits no class is listed individually under "reviewed one by one"."""
import collections, json, os, re
VERIF = os.path.dirname(os.path.dirname(os.path.abspath(__file__)))
d = json.load(open(os.path.join(VERIF, "findings", "mutsweep", "sweep_all.json")))
res = d["results"]
OUT_FUNCS = ("_get_memory_usage", "_check_system_limits", "_enable_faulthandler", "__repr__", "_RemoteTraceback", "wait_for", "recursive_terminate",
             "_windows_taskkill", "_count_physical_cores_win32", "_count_physical_cores_darwin", "get_command_line", "_make_viztracer", "_prepare_initializer",
             "_ChainedInitializer", "get_start_method", "set_start_method", "Semaphore.get_value", "_wrap_objects_when_needed", "_fixup_main_from", "_check_not_importing_main",
             "_ExceptionWithTraceback", "_get_exitcode_name", "_format_exitcodes", "get_exitcodes_terminated_worker", "Popen.terminate", "_reduce_method", "AuthenticationKey",
             "_count_physical_cores_linux", "_count_physical_cores", "spawnv_passfds")
CLASSES = [
    ("out of scope: initializers.py (viztracer helper, initializer chaining)", lambda r: r["path"].endswith("initializers.py")),
    ("out of scope: descriptor-passing reducers for Connection objects (used by every queue: a defect crashes the first spawn)", lambda r: r["path"].endswith("_posix_reduction.py")),
    ("function outside every property (memory-leak guard helpers, system limits, repr, diagnostics text, deprecated alias, auto-wrapping heuristics, main-module fix-up internals, "
     "per-platform probes, context plumbing)", lambda r: any(x in r["func"] for x in OUT_FUNCS)),
    ("memory-leak safeguard of the worker loop (no property)", lambda r: r["func"] == "_process_worker" and re.search(r"memory|_USE_PSUTIL|mem_usage|gc\.collect|_process_reference_size|is_clean", r["before"])),
    ("SWAP of adjacent statements: independent (equivalent) or def-use order broken (NameError at the first call)", lambda r: r["op"] == "SWAP"),
    ("only reporting / memory hygiene (del, warn, log, traceback formatting, stream flush)", lambda r: re.match(r"(del |warnings\.warn|traceback\.|LOGGER\.|sys\.excepthook|print\(|sys\.std(out|err)\.flush|if verbose|if is_clean|tb = |previous_tb|extra_info|e\.(args|msg) = |reason = )", r["before"])),
    ("other build arm (python version / win32 / darwin): pruned on this platform", lambda r: re.search(r"sys\.version_info|win32|msvcrt|_winapi|WINEXE|os\.name|darwin|_MAX_WINDOWS_WORKERS", r["before"])),
    ("argument validation / defaults (ValueError on bad max_workers, chunksize, context; default context, queue size): not part of a property", lambda r: re.search(r"max_workers (is None|<= 0)|chunksize < 1|context is None|isinstance\(context, str\)|get_start_method\(\) == 'fork'|queue_size|_check_system_limits\(\)|cooldown_time|patience", r["before"])),
    ("configuration shipped to the child that no property speaks about (name, authkey, logging, sys.path, argv, cwd, the stdlib tracker)", lambda r: r["func"] in ("prepare", "get_preparation_data") and re.search(r"'name'|authkey|log_|logger|sys_path|sys_argv|'dir'|orig_dir|mp_tracker|mp_resource_tracker|_check_not_importing|main_path|main_mod_name", r["before"])),
    ("stderr / std streams of the tracker process", lambda r: r["func"] in ("ResourceTracker.ensure_running", "main") and re.search(r"stderr|fds_to_pass|f\.close\(\)|log_to_stderr|_HAVE_SIGMASK", r["before"])),
    ("DEL of a definition read later on every path (NameError / AttributeError at the first call: every test fails)", lambda r: r["op"] == "DEL" and re.match(r"[\w\.\[\]' ,\(\)]+ (\+|\|)?= ", r["before"])),
    ("RETNONE of a value consumed by the caller at once (TypeError at the first call)", lambda r: r["op"] == "RETNONE"),
    ("DEL of a call without which nothing works (constructor of the base class, the launch, the write of the payload, the start of a thread): every test fails",
     lambda r: r["op"] == "DEL" and re.search(r"super\(\)\.__init__|_launch\(|\.dump\(|f\.write\(|_make_methods\(\)|_make_methods|__init__\(self|set_spawning_popen|assert_spawning|_reset\(\)|_after_fork\(\)|register_after_fork|_fds\.append|cmd_python|_buffer\.clear", r["before"])),
    ("refused: the check declines (ANALYSIS-ERROR, exit 2) instead of passing", lambda r: r["verdict"] == "refused"),
]
und = [r for r in res if r["verdict"] != "detected"]
cats = collections.OrderedDict((c, []) for c, _ in CLASSES)
rest = []
for r in und:
    for c, pred in CLASSES:
        if pred(r):
            cats[c].append(r)
            break
    else:
        rest.append(r)
tot = collections.Counter(r["verdict"] for r in res)
with open(os.path.join(VERIF, "findings", "mutsweep", "TRIAGE.md"), "w") as fh:
    fh.write("# Triage of the generic mutation sweep\n\n")
    fh.write(f"`tools/mutsweep.py` over {len(d['summary'])} modules, operators {', '.join(d['ops'])}: {len(res)} mutants, "
             f"{tot['detected']} reported by some check, {tot.get('refused', 0)} refused (ANALYSIS-ERROR), {tot.get('undetected', 0)} not reported.\n\n"
             "Not reported (or refused) mutants by class.  The classes were first read mutant by mutant; what is behaviour-changing *and* inside a property became a rule "
             "(DESIGN.md 8.7 / 8.8) and disappeared from this list.\n\n| n | class |\n|---|---|\n")
    for c, rs in cats.items():
        if rs:
            fh.write(f"| {len(rs)} | {c} |\n")
    fh.write(f"| {len(rest)} | reviewed one by one (below) |\n\n## Reviewed one by one\n\n")
    VERDICTS = [
        (r"exception is not None|if rtype_registry|len\(items\) > 0|struct\.error|_pending_work_items:$|_flags\.(broken|shutdown):$|call_item is None", "selects a warning / log / message text only"),
        (r"cpu_affinity|LOKY_MAX_CPU_COUNT'\) is None|^try:$", "defensive fallback for a platform or race that the analysed roles cannot produce (handler narrowed / probe negated): no property clause"),
        (r"wait\(\[self\.sentinel\]", "timed join of Popen: the executor joins without timeout"),
        (r"_mk_inheritable\(child_w\)|duplicate_for_child\(mp_tracker_fd\)|os\.close\(r\)|^True$|^False$|hasattr\(fp, method\)", "descriptor plumbing of another arm / equivalent on this platform (the stdlib tracker, win32 handle duplication, Python 2 buffer API)"),
        (r"_joincancelled|nacquire\(\)|send_bytes\(obj_\)$|_writer\.send_bytes\(obj\)$", "arm not taken on POSIX with a write lock (`wacquire is None`, `_wlock is None`) or the finaliser of a queue created by another process"),
        (r"MemberDescriptorType|dt_attribute\.__set__", "C-pickler slot handling of old Python versions"),
        (r"_fixup_main_from", "main-module re-execution is decided by R-MAIN-FLAG at the sending side; deleting the call disables loky_init_main (its own test fails)"),
        (r"name is None", "SemLock creation vs rebuild-by-name: inverted, every lock creation raises (every test fails)"),
        (r"_windows_taskkill", "win32 arm"),
        (r"method == 'fork'", "selects a deprecation warning only"),
        (r"_enable_faulthandler", "diagnostics"),
        (r"mp is not None", "interpreter-teardown guard inside the weakref callback"),
        (r"with self\.processes_management_lock|with _executor_lock", "lock taken around an operation that is already exclusive at that point (manager after shutdown; re-entrant executor lock held by the caller): equivalent"),
        (r"_executor_manager_thread_wakeup\.wakeup\(\)$", "the first of the two wake-ups in submit is redundant since the D1 repair (the second one follows the spawn)"),
        (r"_threads_wakeups\.pop", "WeakKeyDictionary entry of a joined thread: dropped by GC anyway"),
    ]
    OPV = [
        # by operator and construct (the operators added after the first triage)
        ("ARGSWAP", r"^(max|min)\(", "min / max are commutative: equivalent"),
        ("ARGSWAP", r"getattr\(|reduction\.dump\(|dump\(obj|loky_pickler_cls\.__init__|super\(\)\._on_queue_feeder_error|util\.Finalize|register_after_fork|map\(int", "arguments of different types swapped: TypeError / AttributeError at the first call (every test fails)"),
        ("ARGSWAP", r"os\.waitpid", "waitpid(0, pid): reaping of a dead tracker only (warning path)"),
        ("PAIRSWAP", r".", "the two ends of a fresh pipe / the two results of a helper swapped: the first use fails (every test fails)"),
        ("CONST", r"^(3|8|9|11|14)$", "component of a python-version tuple: other build arm"),
        ("CONST", r"^2$", "factor of the call-queue capacity: any factor >= 1 keeps capacity >= max_workers (R-QUEUE-CAP evaluates the term); performance only"),
        ("CONST", r"^20$", "exit priority of the at-exit hook registration"),
        ("ARGSWAP", r"kwargs\.get\(", "key and default swapped: the default (a str / None) is returned, `chunksize < 1` raises TypeError at the first map call"),
        ("CONST", r"^(0|1|5|10|30)$", "a flag / exit status / priority / time-out constant of a call no property speaks about (fork_exec positional flags, exitpriority, sys.exit status, the 30 s hand-shake bound), or an index whose change fails at once"),
    ]
    for r in sorted(rest, key=lambda r: (r["path"], r["line"])):
        v = next((why for pat, why in VERDICTS if re.search(pat, r["before"])), None)
        if v is None:
            v = next((why for op, pat, why in OPV if r["op"].startswith(op) and re.search(pat, r["before"])), "not classified")
        fh.write(f"* `{r['path']}:{r['line']}` {r['op']} in `{r['func']}`: `{r['before'][:100]}` -- {v}\n")
print(tot, {c: len(v) for c, v in cats.items() if v}, len(rest))
