#!/venv/bin/python
"""False-alarm hunt: run every registered quick check against behaviour-preserving refactorings written by independent
sub-agents (/verif/benign/Bxx/patchN.diff).  A VIOLATION on such a patch is a false alarm (the machinery is wrong and gets
corrected); an ANALYSIS-ERROR is a refusal (exit 2: no verdict; tolerated, but each one is looked at).

usage: tools/eval_benign.py [Bxx ...]      -> benign/RESULTS.json and a markdown table on stdout
"""
import glob
import json
import os
import subprocess
import sys
from concurrent.futures import ThreadPoolExecutor

VERIF = os.path.dirname(os.path.dirname(os.path.abspath(__file__)))
only = sys.argv[1:] or None


# the patches were written against the commit of /repo current at the time; later fix: commits touched some of the same lines.
# A patch that no longer applies to HEAD is evaluated on the newest of these older commits it applies to, *differentially*:
# what counts is what the checks say about base+patch that they do not say about base (an older base lacks later repairs, so the
# checks rightly report those defects on both).
FALLBACK_BASES = ["b25517f"]
_BASELINE = {}
_LOCK = __import__("threading").Lock()


def _run(patch, extra):
    out = f"/tmp/evalb_{os.path.basename(os.path.dirname(patch))}_{os.path.basename(patch)}_{len(extra)}.json"
    if os.path.exists(out):
        os.unlink(out)
    pr = subprocess.run(["/venv/bin/python", os.path.join(VERIF, "tools", "run_seeded.py"), patch, "--json", out] + extra, capture_output=True, text=True)
    if not os.path.exists(out):
        return None, (pr.stdout + pr.stderr)[-300:]
    r = json.load(open(out))
    os.unlink(out)
    return r, None


def one(patch):
    r, err = _run(patch, [])
    if r is not None:
        return patch, {k: {"exit": v["exit"], "rules": v["rules"], "first": v["first"], "errors": v["analysis_errors"][:1]} for k, v in r.items() if v["exit"] != 0}
    for base in FALLBACK_BASES:
        r, err2 = _run(patch, ["--base", base])
        if r is None:
            continue
        with _LOCK:
            if base not in _BASELINE:
                _BASELINE[base] = _run(patch, ["--base", base, "--nopatch"])[0]
        b = _BASELINE[base]
        res = {}
        for k, v in r.items():
            bv = b.get(k, {"exit": 0, "rules": [], "violations": 0})
            new_rules = sorted(set(v["rules"]) - set(bv["rules"]))
            if new_rules or v["violations"] > bv["violations"] or (v["exit"] == 2 and bv["exit"] != 2):
                res[k] = {"exit": 1 if (new_rules or v["violations"] > bv["violations"]) else 2, "rules": new_rules or v["rules"], "first": v["first"],
                          "errors": v["analysis_errors"][:1]}
        res["_base"] = base
        return patch, res
    return patch, {"_error": err}


patches = []
for d in sorted(glob.glob(os.path.join(VERIF, "benign", "B*"))):
    if only and os.path.basename(d) not in only:
        continue
    patches += sorted(glob.glob(os.path.join(d, "patch*.diff")))
with ThreadPoolExecutor(6) as ex:
    res = dict(ex.map(one, patches))
rp = os.path.join(VERIF, "benign", "RESULTS.json")
allres = json.load(open(rp)) if os.path.exists(rp) else {}
for p, r in res.items():
    allres[os.path.relpath(p, VERIF)] = r
json.dump(allres, open(rp, "w"), indent=1, sort_keys=True)
print("| patch | kind | result |")
print("|---|---|---|")
for p in patches:
    d = os.path.dirname(p)
    notes = {}
    try:
        for n in json.load(open(os.path.join(d, "notes.json"))):
            notes[n.get("patch")] = n
    except Exception:
        pass
    n = notes.get(os.path.basename(p), {})
    r = res[p]
    if "_error" in r:
        verdict = "patch does not apply / tool error: " + r["_error"][:80]
    elif not [k for k in r if not k.startswith("_")]:
        verdict = "silent" + (f" (on {r['_base']} + patch vs {r['_base']})" if "_base" in r else "")
    else:
        r = {k: v for k, v in r.items() if not k.startswith("_")}
        verdict = "; ".join(f"{k}: {'FALSE ALARM ' + '/'.join(v['rules']) if v['exit'] == 1 else 'refused ' + (v['errors'][0][:90] if v['errors'] else '')}" for k, v in sorted(r.items()))
    print(f"| {os.path.relpath(p, os.path.join(VERIF, 'benign'))} | {str(n.get('kind', ''))[:40]} | {verdict} |")
