#!/venv/bin/python
"""Rename-robustness test (development tool): every private name of loky is renamed consistently across the tree (in memory) and all 20 checks are run;
a behaviour-preserving rename may make a check refuse (anchor vanished: ANALYSIS-ERROR) but must never produce a new finding (FALSE-ALARM)."""
import sys, re, json
sys.path.insert(0,'/verif'); sys.path.insert(0,'/verif/tools')
from multiprocessing import Pool
from lokysa.model import read_sources
import mutsweep as M
NAMES = ["_loky_pickler_name","_LokyPickler","_dispatch_table","_set_dispatch_table","_keep_wrapper","_obj","_fds","_IGNORED_SIGNALS","_kill","_posix_recursive_kill",
         "_kill_process_tree_with_psutil","_kill_process_tree_without_psutil","_sendback_result","_check_max_depth","_setup_queues","_CallItem","_sentinel","_cleanup","_make_methods",
         "_mk_inheritable","_unlink_resources","_CLEANUP_FUNCS","_resource_tracker","_get_exitcode_name","_process_worker","_WorkItem","_ResultItem","_ExecutorFlags","_ThreadWakeup",
         "_SafeQueue","_ExecutorManagerThread","_adjust_process_count","_ensure_executor_running","_start_executor_manager_thread","_wait_job_completion","_resize","_executor",
         "_executor_kwargs","_next_executor_id","_get_next_executor_id","_executor_lock","_cpu_count_cgroup","_cpu_count_affinity","_cpu_count_user","_count_physical_cores",
         "_wrap_non_picklable_objects","_reconstruct_wrapper","_RemoteTraceback","_ExceptionWithTraceback","_rebuild_exc","_process_chunk","_get_chunks","_chain_from_iterable_of_lists",
         "_python_exit","_threads_wakeups","_global_shutdown","_global_shutdown_lock","_CURRENT_DEPTH","_fixup_main_from_name","_fixup_main_from_path","_HAVE_SIGMASK",
         "_worker_exit_lock","_queue_count","_work_ids","_pending_work_items","_running_work_items","_processes","_processes_management_lock","_flags","_shutdown_lock",
         "_executor_manager_thread","_executor_manager_thread_wakeup","_call_queue","_result_queue","_initializer","_initargs","_env","_timeout","_context","_submit_resize_lock",
         "_sleeping_count","_woken_count","_wait_semaphore","_flag","_cond","_rand","_make_name"]
def job(nm):
    base=M._BASE[0]; bres=M._BASE[1]
    src={p: re.sub(r'(?<![A-Za-z0-9_])'+re.escape(nm)+r'(?![A-Za-z0-9_])', nm+'_renamed', s) for p,s in base.items()}
    if src==base: return nm, 'absent', {}
    res=M.analyse(src)
    out={}
    for p,(fs,err) in res.items():
        bfs=bres[p][0] or []
        new=[f for f in (fs or []) if f not in bfs]
        gone=[f for f in bfs if f not in (fs or [])]
        if new: out[p]=('FALSE-ALARM', sorted({f[0] for f in new}))
        elif err: out[p]=('refused', err[:100])
    return nm, 'ok', out
if __name__=='__main__':
    with Pool(12, initializer=M._init) as pool:
        for nm,st,out in pool.imap_unordered(job, NAMES):
            fa={p:v for p,v in out.items() if v[0]=='FALSE-ALARM'}
            rf={p:v for p,v in out.items() if v[0]=='refused'}
            print(nm, st, 'FALSE-ALARM:' , fa if fa else '-', '| refused:', sorted(rf) if rf else '-', flush=True)
            if rf: print('     e.g.', list(rf.values())[0][1], flush=True)
