#!/venv/bin/python
"""Regenerate /verif/MANIFEST.json from the table below (run from /verif)."""
import json, os, sys
sys.path.insert(0, os.path.dirname(os.path.dirname(os.path.abspath(__file__))))
from lokysa.props.catalog import CATALOG, NOT_APPLICABLE

PY = "/venv/bin/python"
checks = []
for pid, c in sorted(CATALOG.items()):
    if not os.path.exists(os.path.join("lokysa", "props", pid + ".py")):
        continue
    checks.append({
        "property_id": pid,
        "quick_cmd": f"{PY} -m lokysa check {pid} --tier quick",
        "thorough_cmd": f"{PY} -m lokysa check {pid} --tier thorough",
        "evidence_file": f"/verif/evidence/{pid}.json",
        "replay_cmd_template": f"{PY} -m lokysa explain {{path}}",
        "engine": "lokysa",
        "level_claimed": {"category": "other", "text": c["level"], "design_ref": c["ref"]},
        "level_note": c["note"],
        "technique": c["technique"],
    })
claimed = {c["property_id"] for c in checks}
props = [json.loads(l)["id"] for l in open("properties.jsonl")]
na = [{"property_id": p, "reason": NOT_APPLICABLE.get(p, "check not built yet (implementation in progress; planned clauses in DESIGN.md section 4)")}
      for p in props if p not in claimed]
m = {
    "version": 1,
    "setup_cmd": f"{PY} -m lokysa selfcheck",
    "hooks": {
        "guard": "LOKY_VERIF_HOOKS",
        "enable": "no hook exists: the analysis reads /repo's source and never runs it; the guard name is reserved and unused",
        "baseline_off_cmd": "cd /repo && /venv/bin/python -m pytest -ra -q -p no:cacheprovider --timeout=900 --continue-on-collection-errors",
        "source_commits": [],
        "add_only": True,
    },
    "engines": [{
        "name": "lokysa", "path": "/verif/lokysa", "serves_properties": sorted(claimed),
        "kind_free_text": "repository-specific static analyser over ast (pure stdlib): allocation-site points-to with on-the-fly call graph and roles, "
                          "per-function CFG with labelled exceptional edges and dominators, must-held lock sets and wait-for graph, "
                          "guard decision tables, term normaliser, stdlib fact conformance; never imports or runs loky",
    }],
    "checks": checks,
    "notes": "Technique family: static analysis only. Each check rebuilds its model from /repo's working tree on every run. "
             "Exit 0 = every rule instance holds (known findings printed as KNOWN-FINDING lines, see known_findings.json); "
             "exit 1 + VIOLATION line = unlisted violation; exit 2 + ANALYSIS-ERROR = the analysis could not decide (never a pass).",
}
if na:
    m["not_applicable"] = na
json.dump(m, open("MANIFEST.json", "w"), indent=1)
print(f"{len(checks)} checks, {len(na)} not applicable")
