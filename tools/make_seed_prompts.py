#!/venv/bin/python
"""Write the prompts for one round of seeding sub-agents: /tmp/seed<round>_prompt_Cxx.txt.

Each sub-agent gets the property text only (title, statement, quantifier), its own scratch worktree
/tmp/seed<round>_Cxx, the changes earlier agents made for the same property (so that it tries something else) and the
process-hygiene notes of this sandbox.  Nothing from /verif's machinery is disclosed.

usage: tools/make_seed_prompts.py <round> [Cxx ...]
"""
import glob
import json
import os
import sys

VERIF = os.path.dirname(os.path.dirname(os.path.abspath(__file__)))
rnd = int(sys.argv[1])
only = sys.argv[2:] or None

HINT = {
    5: ("The library is also checked by a custom static analyser (you cannot see it). It looks at the SHAPE of the code (orderings, lock "
        "contexts, breadth of exception handlers, polarity of branch conditions, argument order, who may call what, pairing of "
        "acquire/release and open/close) and at a number of VALUE-level facts (capacity and count terms, guard decision tables, literal "
        "protocol strings, which user objects are formatted on internal threads). So look where such an analyser is weakest: the "
        "interaction of TWO modules or two functions that each look fine alone (a producer and a consumer that disagree about a "
        "convention: units, None vs 0, bytes vs str, inclusive vs exclusive bound, who closes / who owns); rarely used configuration "
        "(context=/start method 'loky_init_main' 'spawn', LOKY_* environment variables, timeout=None or 0, chunksize, initializer / "
        "initargs, env=, only_physical_cores, kill_workers, reuse='auto'); error-handling and clean-up paths; the state left behind for "
        "the NEXT call (a cached value, a counter, a flag that is not reset); boundary values (0, 1, empty, negative, very large, names "
        "with unusual characters). It must still break the property above and must still need something specific to manifest."),
}
HINT[6] = HINT[5] + (" Earlier rounds have used up the obvious places (see the list above): prefer a change of one to three lines in a function none of "
                     "them touched, whose effect shows only through what ANOTHER function later assumes. You have about 70 minutes in total: decide "
                     "on the change within the first 20, keep the demo small, and start the full test-suite run no later than minute 45.")
HINT[7] = HINT[5] + (" Earlier rounds have used up the obvious places (see the list above): prefer a change of one to three lines in a function none of "
                     "them touched, whose effect shows only through what ANOTHER function later assumes. TIME: you have 22 minutes in total, hard limit. "
                     "Decide on the change within the first 7 minutes, keep the demo tiny, run only the ONE OR TWO most relevant test files (not the full suite; "
                     "it is run for you afterwards), and write the three deliverables by minute 20 even if imperfect.")

for line in open(os.path.join(VERIF, "properties.jsonl")):
    p = json.loads(line)
    pid = p["id"]
    if only and pid not in only:
        continue
    wt = f"/tmp/seed{rnd}_{pid}"
    tried = []
    for d in sorted(glob.glob(os.path.join(VERIF, "seeded", f"{pid}*"))) + sorted(glob.glob(os.path.join(VERIF, "seeded", "_rejected", f"{pid}*"))):
        mp = os.path.join(d, "meta.json")
        if os.path.exists(mp):
            s = json.load(open(mp)).get("summary", "")
            if s:
                tried.append(s[:420].replace("\n", " ") + (" ..." if len(s) > 420 else ""))
    tried_txt = "\n".join(f'  {i + 1}. "{s}"' for i, s in enumerate(tried))
    FULL = "" if rnd >= 7 else f""" Before finishing, run the FULL test suite once with your change (`cd {wt} && PYTHONPATH={wt} setsid -w timeout -k 5 3000 /venv/bin/python -m pytest -q -p no:cacheprovider --timeout=600 tests > {wt}_full.txt 2>&1 < /dev/null; true`) and make sure only the two known-bad tests fail; if any other test fails or times out, your change is exposed by the existing tests and you must pick another one. (Use `setsid -w` so that the command waits for the run to finish.)"""
    txt = f"""You are helping test a verification tool by seeding a realistic defect into a Python library (joblib/loky, a robust ProcessPoolExecutor). You work ONLY in your own scratch git worktree: {wt} (a checkout of the library; the package is the `loky/` directory, tests in `tests/`). Do NOT touch /repo or /verif, and do not look at /verif at all.

Here is a semantic property the library is supposed to satisfy:

----
Property {pid}: {p['title']}

Statement: {p['statement']}

Quantified over: {p['quantifier']['text']}

----

YOUR TASK: produce ONE small source change to files under {wt}/loky/ that BREAKS this property, while (a) the package still imports/compiles and (b) the existing test suite still passes. The change must look like a plausible maintainer edit (a refactor gone slightly wrong, a "simplification", a reordered statement, a narrowed exception class, a dropped lock, an off-by-one...), NOT an obvious sabotage, and it must need something SPECIFIC to manifest: a particular interleaving, a crash/fault at a particular point, a multi-step sequence of operations, an unusual input/configuration, or two cooperating sites that each look fine alone. Do NOT pick a change that ordinary use (or the existing tests) would expose at once.

DELIVERABLES (write them into {wt}/_seed/):
1. {wt}/_seed/patch.diff  -- output of `git -C {wt} diff -- loky` (the change only touches files under loky/).
2. {wt}/_seed/demo.py (or test_demo.py) -- a small standalone program that demonstrates the breakage: it must FAIL (non-zero exit / assertion / detected hang with a timeout) WITH your change and PASS (exit 0) WITHOUT it. If the defect needs a special schedule, force it deterministically in the demo (e.g. monkeypatch a function with a sleep to model a descheduled thread, slow pickling via __reduce__ with a sleep, a done-callback that sleeps, os.kill at a chosen point...). The demo must import the library from the worktree: run it as `cd {wt} && PYTHONPATH={wt} /venv/bin/python _seed/demo.py`. Always give waits a timeout so a hang is reported as failure instead of blocking forever.
3. {wt}/_seed/meta.json -- {{"property": "<id>", "summary": "...one paragraph: what was changed and why it breaks the property...", "needs": "...what specific schedule/fault/sequence/input is needed for it to manifest...", "files": [...], "tests_run": "...exact commands you ran and their outcome...", "side_remarks": "...optional, see below..."}}

OPTIONAL BUT VALUABLE (side remarks): while reading the code you may notice that the UNMODIFIED library already violates the property above for some input / schedule / configuration. If so, describe it in "side_remarks" (function, what goes wrong, what triggers it) and, if you can, add a second small program {wt}/_seed/baseline_demo.py that shows it on the unmodified code (exit 1 when the violation shows, 0 otherwise). This is not a substitute for the seeded change.

HOW TO CHECK YOURSELF:
- Run the demo with and without the change (do NOT use `git stash` - the stash is shared with other checkouts; instead: `git -C {wt} diff -- loky > {wt}_mine.diff; git -C {wt} checkout -- loky; ...run...; git -C {wt} apply {wt}_mine.diff`) and confirm fail/pass.
- Run the most relevant existing test files with the change applied and confirm they pass, e.g. `cd {wt} && PYTHONPATH={wt} /venv/bin/python -m pytest -x -q -p no:cacheprovider --timeout=600 tests/test_reusable_executor.py` (pick the files that exercise the code you touched). Two tests are known to fail on this machine regardless of your change: tests/test_loky_module.py::test_cpu_count_cgroup_limit and tests/test_reusable_executor.py::TestTerminateExecutor::test_sigkill_shutdown_leaks_workers -- ignore those.
- IMPORTANT process hygiene in this sandbox: scripts that start loky workers can leave orphaned worker processes that keep inherited pipes open, which blocks the tool call. So NEVER pipe the output of such a command (no `| tail`, `| grep`); instead redirect to a file and read the file afterwards, and run them in their own session with a timeout, like:
    (cd {wt} && PYTHONPATH={wt} setsid timeout -k 2 600 /venv/bin/python -m pytest -x -q -p no:cacheprovider --timeout=300 tests/test_x.py > {wt}_out.txt 2>&1 < /dev/null; true)
  and then read {wt}_out.txt. For the demo, end it with `os.killpg(0, 9)` after flushing its verdict to a file, or simply use the setsid+timeout wrapper and print the verdict before. Do not use `pkill -f` with a pattern that appears in your own command line.
- Python is /venv/bin/python (3.12); psutil and cloudpickle are installed. There is no network.

Leave the change APPLIED in the worktree when you are done (do not commit it). In your final answer, report: the path of the patch, a 3-5 line description of the change, what it needs in order to manifest, the exact outputs you observed for (demo with change) / (demo without change) / (tests with change), and your side remarks if any.


ALREADY TRIED (do NOT repeat any of these, nor a variation of them -- pick a DIFFERENT function / mechanism / file):
{tried_txt}

{HINT.get(rnd, '')}

Additional rules: do not use `git stash` (shared with other checkouts); do not delete anything under /dev/shm; the worktree is based on a newer commit than the earlier attempts (several defects were repaired upstream since).{FULL}
"""
    out = f"/tmp/seed{rnd}_prompt_{pid}.txt"
    open(out, "w").write(txt)
    print(out, len(tried), "earlier changes disclosed")
