"""D8: a feeder thread blocked writing a large task is never released after the pool broke / was killed.

History: one worker; a task whose pickled arguments are larger than the pipe buffer is queued behind a
running task, so the QueueFeederThread blocks in send_bytes (nobody reads: the worker is busy); then the
worker is SIGKILLed (mode crash) or shutdown(kill_workers=True) is called (mode kill).  The parent keeps
its own reader end of the call queue open, so the blocked write never fails: the feeder thread, the
queue's descriptors and semaphores leak for every such lifecycle (CPython fixed the same in gh-94777).
"""
import os, sys, time, signal, threading
from loky.process_executor import ProcessPoolExecutor


def nfds():
    return len(os.listdir("/proc/self/fd"))


def lifecycle(mode):
    e = ProcessPoolExecutor(1)
    f1 = e.submit(time.sleep, 30)
    time.sleep(1.0)
    big = b"x" * (8 << 20)
    f2 = e.submit(len, big)          # feeder blocks in send_bytes: 8 MB > pipe capacity
    time.sleep(1.0)
    if mode == "crash":
        os.kill(next(iter(e._processes)), signal.SIGKILL)
        for f in (f1, f2):
            try:
                f.result(timeout=20)
            except Exception as ex:
                pass
    else:
        e.shutdown(kill_workers=True)
    del e, f1, f2, big
    time.sleep(1.5)


if __name__ == "__main__":
    mode = sys.argv[1] if len(sys.argv) > 1 else "crash"
    base = (nfds(), threading.active_count())
    counts = []
    for i in range(3):
        lifecycle(mode)
        counts.append((nfds(), threading.active_count(), [t.name for t in threading.enumerate() if t.name != "MainThread"]))
        print(mode, "after lifecycle", i + 1, "fds/threads:", counts[-1], flush=True)
    leak = counts[-1][0] > counts[0][0] or counts[-1][1] > counts[0][1]
    print("RESULT:", "DEFECT (feeder threads / fds accumulate)" if leak else "ok", "baseline", base, flush=True)
    os.killpg(0, 9)
