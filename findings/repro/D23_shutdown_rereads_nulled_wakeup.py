"""D23 (C01, C05): concurrent shutdown() calls: AttributeError: 'NoneType' object has no attribute 'wakeup'.

`ProcessPoolExecutor.shutdown` takes a snapshot of `self._executor_manager_thread_wakeup`, tests the *snapshot* for None and
then calls `self._executor_manager_thread_wakeup.wakeup()` -- reading the attribute again.  A concurrent `shutdown(wait=True)`
that completes in between sets the attribute to None: the second caller gets AttributeError out of shutdown().

The descheduled thread is modelled by a lock wrapper that sleeps before acquiring for that thread only.

usage: D23_shutdown_rereads_nulled_wakeup.py      prints DEFECT (exit 1) or ok (exit 0)
"""
import os
import sys
import threading
import time

from loky.process_executor import ProcessPoolExecutor


class SlowForThread:
    def __init__(self, lock, name, delay):
        self.lock, self.name, self.delay = lock, name, delay

    def __enter__(self):
        if threading.current_thread().name == self.name:
            time.sleep(self.delay)
        return self.lock.__enter__()

    def __exit__(self, *a):
        return self.lock.__exit__(*a)


def main():
    ex = ProcessPoolExecutor(max_workers=1, timeout=60)
    assert ex.submit(int, 3).result(timeout=60) == 3
    ex._shutdown_lock = SlowForThread(ex._shutdown_lock, "late", 2.0)
    errors = []

    def late():
        try:
            ex.shutdown(wait=False)
        except BaseException as e:  # noqa
            errors.append(e)
    t = threading.Thread(target=late, name="late")
    t.start()
    time.sleep(0.5)               # `late` has taken its snapshot and is about to take the lock
    ex.shutdown(wait=True)        # completes and drops the references
    t.join(30)
    if errors:
        print(f"DEFECT: shutdown(wait=False) concurrent with shutdown(wait=True) raised {type(errors[0]).__name__}: {errors[0]}")
        rc = 1
    else:
        print("ok: both shutdown() calls returned")
        rc = 0
    sys.stdout.flush()
    os._exit(rc)


if __name__ == "__main__":
    main()
