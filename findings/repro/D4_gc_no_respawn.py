"""D4: once the executor object is collected, a timed-out worker is never replaced."""
import gc, os, sys, threading, time
from concurrent.futures import TimeoutError
from loky.process_executor import ProcessPoolExecutor


class SlowPickle:
    def __reduce__(self):
        time.sleep(1.5)
        return (int, ())


def ident(x):
    return 1


if __name__ == "__main__":
    e = ProcessPoolExecutor(1, timeout=0.3)
    e.submit(int).result()
    f = e.submit(ident, SlowPickle())
    del e
    gc.collect()
    try:
        print("result", f.result(timeout=10))
    except TimeoutError:
        print("HANG: future unresolved; threads", [t.name for t in threading.enumerate()])
    sys.stdout.flush()
    os.killpg(0, 9)
