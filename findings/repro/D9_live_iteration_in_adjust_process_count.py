"""D9: _adjust_process_count iterated the live worker table (in its debug f-string) without the
management lock when called from _resize; a worker that idles out meanwhile is popped by the manager
thread -> `RuntimeError: dictionary changed size during iteration` out of get_reusable_executor().

The thread switch between two iterations of the comprehension is modelled by making the loop BODY slow
(`p.name` sleeps when evaluated by the resizing thread).  On the repaired tree the comprehension walks
`list(self._processes.items())` -- a snapshot taken by one atomic C call -- so the same schedule is
harmless.
"""
import os, sys, time, threading
from loky import get_reusable_executor
from loky.backend.process import LokyProcess

slow = {"on": False}
main = threading.main_thread()
orig_name = LokyProcess.name


def slow_name(self):
    if slow["on"] and threading.current_thread() is main and sys._getframe(1).f_code.co_name == "_adjust_process_count":
        time.sleep(0.7)            # the resizing thread is descheduled inside the comprehension body
    return orig_name.fget(self)


LokyProcess.name = property(slow_name, orig_name.fset)

if __name__ == "__main__":
    e = get_reusable_executor(2, timeout=1.0)
    e.submit(int).result()
    time.sleep(0.5)                               # the two workers leave about 0.5 s from now
    slow["on"] = True
    try:
        e2 = get_reusable_executor(3, timeout=1.0)   # resize 2 -> 3: _adjust_process_count without the lock
        slow["on"] = False
        print("resize returned, workers:", len(e2._processes))
        rc = 0
    except RuntimeError as ex:
        slow["on"] = False
        print("DEFECT: get_reusable_executor raised", repr(ex))
        rc = 1
    print("RESULT:", "DEFECT" if rc else "ok", flush=True)
    os.killpg(0, 9)
