"""D19 (C07, C01): the memory-leak exit of a worker does not stop the executors nested in it.

`_process_worker` has three clean exits: on the sentinel and on the idle time-out it calls `_python_exit()` (which shuts down
every executor created *inside* the worker) before returning; on the memory-leak exit it returns without that call.  A worker
that hosts a live nested executor whose workers have no idle time-out then never finishes exiting (the interpreter's exit
function joins the nested workers, which wait for work forever), the parent's manager thread is stuck in `p.join()` of that
worker while handling its exit announcement, and every later task of the outer executor stays pending.

usage: D19_leak_exit_skips_nested_shutdown.py      prints DEFECT (exit 1) or ok (exit 0)
"""
import os
import sys
from concurrent.futures import TimeoutError

from loky.process_executor import ProcessPoolExecutor

_NESTED = []


def start_nested_and_leak():
    import loky.process_executor as pe
    from loky import get_reusable_executor
    inner = get_reusable_executor(max_workers=1, timeout=None)
    assert inner.submit(int, 1).result(timeout=30) == 1
    _NESTED.append(inner)           # the nested executor outlives the task
    # make the leak detector fire at its next check
    pe._MAX_MEMORY_LEAK_SIZE = -1
    pe._MEMORY_LEAK_CHECK_DELAY = 0
    return os.getpid()


def ident(x):
    return x


def main():
    ex = ProcessPoolExecutor(max_workers=1, timeout=60)
    pid = ex.submit(start_nested_and_leak).result(timeout=60)
    # one or two more tasks: the worker takes its reference measurement, then detects the "leak" and announces its exit
    for i in range(3):
        try:
            ex.submit(ident, i).result(timeout=20)
        except TimeoutError:
            print(f"DEFECT: task {i} submitted after worker {pid} started its memory-leak exit is still pending after 20 s "
                  "(the exiting worker never terminates: it joins the workers of its nested executor)")
            sys.stdout.flush()
            os._exit(1)
    print("ok: the worker left on its memory-leak exit and the outer executor kept working")
    sys.stdout.flush()
    os._exit(0)


if __name__ == "__main__":
    main()
