"""D18 (C08): the reusable executor sizes its call queue from cpu_count(), not from max_workers.

`_ReusablePoolExecutor._setup_queues` creates the call queue with capacity 2 * cpu_count() + 1.  max_workers may be
larger (oversubscription is allowed; a container CPU quota / LOKY_MAX_CPU_COUNT lowers cpu_count()).  The executor
manager thread stops feeding the queue as soon as it is full and is woken only by a submit or a result, never by a
worker *taking* an item: when the submit wake-ups are all processed before the workers drained the queue, only
2 * cpu_count() + 1 of the max_workers idle workers get a task until the first result comes back.

Run with LOKY_MAX_CPU_COUNT=1 (capacity 3) and max_workers=8: 8 long tasks on 8 healthy idle workers, 3 run.

usage: LOKY_MAX_CPU_COUNT=1 D18_call_queue_capacity_below_max_workers.py      prints DEFECT (exit 1) or ok (exit 0)
"""
import os
import sys
import time

os.environ.setdefault("LOKY_MAX_CPU_COUNT", "1")

from loky import get_reusable_executor  # noqa: E402

N = 8
DURATION = 3.0


class SlowToPickle:
    # models a feeder thread slower than the submitting thread (large arguments)
    def __reduce__(self):
        time.sleep(0.15)
        return (SlowToPickle, ())


def long_task(i, payload):
    start = time.time()
    time.sleep(DURATION)
    return start, time.time()


def main():
    ex = get_reusable_executor(max_workers=N, timeout=60)
    assert ex.submit(int, 3).result(timeout=60) == 3
    assert len(ex._processes) == N
    futures = [ex.submit(long_task, i, SlowToPickle()) for i in range(N)]
    res = [f.result(timeout=120) for f in futures]
    first_end = min(e for _, e in res)
    first_wave = sum(s < first_end for s, _ in res)
    cap = ex._call_queue._maxsize
    bad = first_wave < N
    print(("DEFECT: " if bad else "ok: ") + f"max_workers={N}, call queue capacity={cap}: {first_wave} of {N} long tasks ran in the first wave")
    sys.stdout.flush()
    ex.shutdown(wait=True)
    os._exit(1 if bad else 0)


if __name__ == "__main__":
    main()
