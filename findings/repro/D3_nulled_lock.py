"""D3: shutdown(wait=False) drops fields the manager's respawn path still dereferences."""
import os, sys, threading, time
from concurrent.futures import TimeoutError
from loky.process_executor import ProcessPoolExecutor


class SlowPickle:
    def __reduce__(self):
        time.sleep(1.5)  # the item is 'running' but not yet in the pipe
        return (int, ())


def ident(x):
    return 1


if __name__ == "__main__":
    e = ProcessPoolExecutor(1, timeout=0.3)
    e.submit(int).result()
    f = e.submit(ident, SlowPickle())
    e.shutdown(wait=False)
    try:
        print("result", f.result(timeout=10))
    except TimeoutError:
        print("HANG: future unresolved; threads", [t.name for t in threading.enumerate()])
    sys.stdout.flush()
    os.killpg(0, 9)
