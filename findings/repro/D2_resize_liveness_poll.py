"""D2: _resize spins forever when a worker of its snapshot leaves before the poll.

Schedule: the resizing thread is descheduled for 2.5 s between
`processes = list(self._processes.values())` and the first `is_alive()` poll;
the idle workers reach their 1 s timeout meanwhile.
"""
import faulthandler, os, sys, threading, time
from loky import get_reusable_executor
import loky.reusable_executor as ru
from loky.backend.process import LokyProcess

if __name__ == "__main__":
    e = get_reusable_executor(2, timeout=1.0)
    e.submit(int).result()
    state = {"phase": None, "first": True}
    orig_adjust = ru._ReusablePoolExecutor._adjust_process_count
    orig_alive = LokyProcess.is_alive

    def adjust(self):
        orig_adjust(self)
        if threading.current_thread().name == "resizer":
            state["phase"] = "poll"

    def is_alive(self):
        if (threading.current_thread().name == "resizer"
                and state["phase"] == "poll" and state["first"]):
            state["first"] = False
            time.sleep(2.5)
        return orig_alive(self)

    ru._ReusablePoolExecutor._adjust_process_count = adjust
    LokyProcess.is_alive = is_alive
    done = threading.Event()

    def go():
        get_reusable_executor(3, timeout=1.0)
        done.set()

    threading.Thread(target=go, daemon=True, name="resizer").start()
    if not done.wait(15):
        print("HANG in get_reusable_executor/_resize")
        faulthandler.dump_traceback(all_threads=True)
    else:
        print("resize returned")
    sys.stdout.flush()
    os.killpg(0, 9)
