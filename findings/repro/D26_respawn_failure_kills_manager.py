"""D26 (known finding, not repaired) -- a failing re-spawn on the executor manager thread ends the thread.

When a worker leaves on its idle timeout while work is pending, `_ExecutorManagerThread.process_result_item` re-spawns
workers itself (`executor._adjust_process_count()`), outside any handler.  Starting a process can fail: EAGAIN / EMFILE /
ENOMEM from fork_exec, or -- used here because it needs no fault injection -- FileNotFoundError from os.getcwd() in
spawn.get_preparation_data when the current directory was removed.  The exception ends the manager thread: the pending
future never resolves and the executor is not flagged broken.

(First shown by the baseline demo of the round-6 sub-agent for C07, scenario e.)

Run:  PYTHONPATH=<tree> /venv/bin/python D26_respawn_failure_kills_manager.py     exit 1 = defect present, 0 = absent
"""
import os
import sys
import tempfile
import time

from loky.process_executor import ProcessPoolExecutor


class SlowlyPickling:
    """Pickling takes long enough for the only worker to leave on its idle timeout before the task reaches it."""

    def __init__(self, delay):
        self.delay = delay

    def __reduce__(self):
        time.sleep(self.delay)
        return (SlowlyPickling, (0,))


def main():
    executor = ProcessPoolExecutor(max_workers=1, timeout=0.3)
    assert executor.submit(int, "1").result(timeout=30) == 1
    old = os.getcwd()
    d = tempfile.mkdtemp()
    os.chdir(d)
    os.rmdir(d)                      # os.getcwd() now raises FileNotFoundError: any process start from here fails
    try:
        fut = executor.submit(isinstance, SlowlyPickling(2.0), SlowlyPickling)
        try:
            fut.result(timeout=15)
        except BaseException as e:
            if type(e).__name__ == "TimeoutError":
                print("FAIL: the re-spawn failure ended the manager thread: the future never resolves; "
                      f"broken flag = {executor._flags.broken!r}", flush=True)
                return 1
            print(f"PASS: the future failed with {type(e).__name__}", flush=True)
            return 0
        print("PASS: the future resolved", flush=True)
        return 0
    finally:
        os.chdir(old)


if __name__ == "__main__":
    rc = main()
    sys.stdout.flush()
    os._exit(rc)
