"""D11 (C19): the nesting depth of a worker is installed only *after* its initializer ran.

History: LOKY_MAX_DEPTH=1.  The main program builds an executor whose initializer builds (and uses)
an executor of its own.  The worker is at depth 1, so this must raise LokyRecursionError; but
_process_worker assigns _CURRENT_DEPTH = current_depth only after initializer(*initargs) returned,
so the initializer still sees depth 0, the check passes and its own workers are again started with
depth 0 + 1: initializers can nest executors without any bound.

Prints DEFECT (exit 1) if the nested executor could be created, ok (exit 0) if it was refused.
"""
import os
import sys

os.environ["LOKY_MAX_DEPTH"] = "1"

from loky.process_executor import ProcessPoolExecutor, LokyRecursionError  # noqa: E402

def init():
    try:
        nested = ProcessPoolExecutor(1)
        os.environ["D11_VERDICT"] = "nested executor created at depth 1 with LOKY_MAX_DEPTH=1; its worker: pid %d" % nested.submit(os.getpid).result(timeout=60)
        nested.shutdown()
    except LokyRecursionError as e:
        os.environ["D11_VERDICT"] = "refused: " + str(e).split(".")[0]


def report():
    return os.environ.get("D11_VERDICT", "initializer did not report")


if __name__ == "__main__":
    e = ProcessPoolExecutor(1, initializer=init)
    v = e.submit(report).result(timeout=120)
    e.shutdown()
    print(v)
    if v.startswith("refused"):
        print("ok")
        sys.stdout.flush()
        os._exit(0)
    print("DEFECT")
    sys.stdout.flush()
    os._exit(1)
