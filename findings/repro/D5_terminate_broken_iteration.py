"""D5: terminate_broken iterates pending_work_items while the feeder's error path pops from it."""
import os, sys, threading, time
from concurrent.futures import TimeoutError
from loky.process_executor import ProcessPoolExecutor


class BadPickle:
    def __reduce__(self):
        time.sleep(1.5)
        raise ValueError("cannot pickle me")


def die_later(t):
    time.sleep(t)
    os._exit(3)


def ident(x):
    return 1


if __name__ == "__main__":
    e = ProcessPoolExecutor(1)
    e.submit(int).result()
    fa = e.submit(die_later, 1.0)  # takes its worker down at t=1.0
    fa.add_done_callback(lambda f: time.sleep(1.2))  # keeps the manager inside its loop
    fb = e.submit(ident, BadPickle())  # the feeder fails to pickle it at t=1.5
    fc = e.submit(ident, 0)
    res = {}
    for name, f in (("A", fa), ("B", fb), ("C", fc)):
        try:
            f.result(timeout=10)
            res[name] = "result"
        except TimeoutError:
            res[name] = "HANG"
        except Exception as ex:
            res[name] = type(ex).__name__
    print(res, "threads", [t.name for t in threading.enumerate()])
    sys.stdout.flush()
    os.killpg(0, 9)
