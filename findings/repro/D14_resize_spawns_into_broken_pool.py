"""D14 (C09, C10): a worker death during a shrinking resize makes _resize try to spawn fresh workers into the broken pool.

History: reusable executor with 3 workers; get_reusable_executor(max_workers=1) posts two sentinels and waits for two
workers to leave.  One worker dies abruptly meanwhile: the manager flags the pool broken, kills and reaps every worker and
closes the queues.  The shrink wait of _resize ends (its `broken` escape) and _resize goes on to top the pool up: it builds a
new worker process around the closed queues, and get_reusable_executor() raises `OSError: handle is closed` instead of
returning (the caller asked for an executor; the broken one would be replaced by the next call).

The workers are frozen with SIGSTOP so that the death deterministically falls inside the shrink wait, and the resizing
thread is modelled as descheduled during one of its 1 ms polling sleeps (the sleep takes 3 s), so that the manager has
finished killing the workers when the resize carries on.
Prints DEFECT (exit 1) if the call raises (or a live worker is registered in the broken executor afterwards), ok (exit 0) otherwise.
"""
import os
import signal
import sys
import threading
import time

import psutil

from loky import get_reusable_executor

if __name__ == "__main__":
    import types
    import loky.reusable_executor as rex
    rex.time = types.SimpleNamespace(sleep=lambda s: time.sleep(3.0))   # a descheduled polling thread
    e = get_reusable_executor(max_workers=3, timeout=None)
    list(e.map(abs, range(6)))
    pids = list(e._processes)
    for p in pids:
        os.kill(p, signal.SIGSTOP)           # frozen workers do not take their sentinel: the shrink wait lasts
    out = {}
    def call():
        try:
            out["ex"] = get_reusable_executor(max_workers=1, timeout=None)
        except BaseException as ex_:   # noqa
            out["raised"] = ex_
    t = threading.Thread(target=call)
    t.start()
    time.sleep(4.0)                           # _resize is now in its shrink wait
    os.kill(pids[0], signal.SIGKILL)          # abrupt death during the resize
    t.join(30)
    time.sleep(1.0)
    ex = out.get("ex", e)
    alive = [p for p in list(ex._processes) if psutil.pid_exists(p) and psutil.Process(p).status() != psutil.STATUS_ZOMBIE]
    print("registered:", {p: (psutil.Process(p).status() if psutil.pid_exists(p) else "gone") for p in list(ex._processes)})
    print("resize returned:", not t.is_alive(), "| broken:", type(ex._flags.broken).__name__, "| workers registered in the broken executor and alive:", alive)
    sys.stdout.flush()
    code = 1 if ((ex._flags.broken is not None and alive) or "raised" in out) else 0
    print(("DEFECT: get_reusable_executor raised %r / workers spawned into a broken pool: %s" % (out.get("raised"), alive)) if code else "ok")
    sys.stdout.flush()
    for p in alive + pids:
        try:
            os.kill(p, signal.SIGKILL)
        except OSError:
            pass
    os._exit(code)
