"""D1: a worker that dies right after being (re)spawned by submit() is never noticed.

Schedule: all workers have idled out; submit() wakes the manager, the manager
re-computes its wait set (no sentinels yet) and blocks; only then does submit()
register the new worker.  Modelled by delaying the spawn by 0.5 s.
"""
import os, sys, time
from concurrent.futures import TimeoutError
from loky import get_reusable_executor
from loky import process_executor as pe

if __name__ == "__main__":
    e = get_reusable_executor(1, timeout=0.5)
    e.submit(int).result()
    time.sleep(2.5)
    assert len(e._processes) == 0
    orig = pe.ProcessPoolExecutor._adjust_process_count

    def slow(self):
        time.sleep(0.5)  # the submitting thread is descheduled; the manager runs first
        return orig(self)

    pe.ProcessPoolExecutor._adjust_process_count = slow
    f = e.submit(os._exit, 1)
    try:
        f.result(timeout=8)
    except TimeoutError:
        print("HANG: future unresolved; worker exit codes",
              {pid: p.exitcode for pid, p in e._processes.items()})
    except Exception as ex:
        print("detected:", type(ex).__name__)
    sys.stdout.flush()
    os.killpg(0, 9)
