"""D20 (C01, C05, C07, C08): a warning turned into an error kills the executor manager thread.

When a worker leaves (idle time-out / memory leak) while work is pending, `process_result_item` -- running on the executor
manager thread -- calls `warnings.warn("A worker stopped while some jobs were given to the executor...")` before it re-spawns
a worker.  With warnings configured as errors (`-W error`, `warnings.simplefilter("error")`, pytest's `filterwarnings = error`)
the call raises, the exception leaves `run()`, the manager thread dies: no worker is re-spawned, the pending future never
resolves and the executor is not flagged broken.

usage: D20_warning_as_error_kills_manager.py      prints DEFECT (exit 1) or ok (exit 0)
"""
import os
import sys
import time
import warnings
from concurrent.futures import TimeoutError

from loky.process_executor import ProcessPoolExecutor


class SlowToPickle:
    # the task is registered (pending) but reaches the worker only after the worker's idle time-out
    def __reduce__(self):
        time.sleep(3)
        return (SlowToPickle, ())


def ident(x):
    return 1


def main():
    warnings.simplefilter("error")
    ex = ProcessPoolExecutor(max_workers=1, timeout=1.0)
    assert ex.submit(ident, 0).result(timeout=30) == 1
    f = ex.submit(ident, SlowToPickle())
    try:
        f.result(timeout=25)
        print("ok: the task ran although its worker timed out while it was being sent (a worker was re-spawned)")
        rc = 0
    except TimeoutError:
        t = ex._executor_manager_thread
        print(f"DEFECT: the future is still pending after 25 s; executor manager thread alive: {t.is_alive() if t else None}; "
              f"broken flag: {ex._flags.broken}")
        rc = 1
    sys.stdout.flush()
    os._exit(rc)


if __name__ == "__main__":
    main()
