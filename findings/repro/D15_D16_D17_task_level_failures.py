"""D15, D16, D17 (C03, C04): three task-level failures that are not contained / not reported faithfully.

D15  a task raises an exception whose truth value is False (it defines __bool__ / __len__): the manager tests
     `if result_item.exception:` and calls set_result(None) -- the future is *resolved as a success* (exception() is None).
D16  a task argument whose pickling raises IndexError: the feeder's `except IndexError: pass` (meant for the empty
     buffer) also covers the serialisation, the task is dropped silently and its future never resolves.
D17  a task raises an exception that cannot be pickled: the worker sends it with a bare result_queue.put(), the
     PicklingError escapes the worker loop, the worker dies and the whole pool is flagged broken.

usage: D15_D16_D17_task_level_failures.py D15|D16|D17      prints DEFECT (exit 1) or ok (exit 0)
"""
import os
import sys
import threading
from concurrent.futures import TimeoutError

from loky.process_executor import ProcessPoolExecutor


class Falsy(Exception):
    def __bool__(self):
        return False


def raise_falsy():
    raise Falsy("this failure must not be turned into a result")


class IndexErrorAtPickle:
    def __reduce__(self):
        raise IndexError("raised by the task's own __reduce__")


def ident(x):
    return x


class Unpicklable(Exception):
    def __init__(self):
        super().__init__("holds a lock")
        self.lock = threading.Lock()


def raise_unpicklable():
    raise Unpicklable()


def verdict(bad, msg):
    print(("DEFECT: " if bad else "ok: ") + msg)
    sys.stdout.flush()
    os._exit(1 if bad else 0)


if __name__ == "__main__":
    which = sys.argv[1]
    e = ProcessPoolExecutor(2)
    e.submit(int).result()
    if which == "D15":
        f = e.submit(raise_falsy)
        # loky's part: the future must be resolved with set_exception().  (concurrent.futures.Future.result() itself tests
        # `if self._exception:` in CPython, so result() still returns None for a falsy exception even after the fix; exception(),
        # done-callbacks and as_completed consumers see the failure.)
        ex = f.exception(timeout=30)
        if ex is None:
            verdict(True, f"the manager resolved the future with set_result({f.result()!r}) although the task raised Falsy")
        else:
            verdict(False, f"the future carries the task's exception ({type(ex).__name__})")
    if which == "D16":
        f = e.submit(ident, IndexErrorAtPickle())
        try:
            f.result(timeout=15)
            verdict(True, "a result came back?")
        except TimeoutError:
            verdict(True, "the future of the task whose arguments raise IndexError while pickling never resolves")
        except Exception as ex:
            verdict(False, f"the future failed with {type(ex).__name__}")
    if which == "D17":
        f = e.submit(raise_unpicklable)
        other = e.submit(ident, 3)
        try:
            f.result(timeout=30)
        except Exception as ex:
            first = type(ex).__name__
        try:
            o = other.result(timeout=30)
            later = e.submit(ident, 4).result(timeout=30)
            verdict(False, f"faulty task failed with {first}; other tasks unaffected ({o}, {later})")
        except Exception as ex:
            verdict(True, f"the pool broke because one task raised an unpicklable exception: faulty task -> {first}, other task -> {type(ex).__name__}")
