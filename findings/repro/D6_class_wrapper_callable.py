"""D6: instances built through a wrapped class lose callability (and regain it after a round trip)."""
import pickle
from loky import wrap_non_picklable_objects


class A:
    def __init__(self, k):
        self.k = k

    def __call__(self, x):
        return x + self.k


W = wrap_non_picklable_objects(A)
w = W(3)
print("callable(A(3)) =", callable(A(3)), " callable(W(3)) =", callable(w))
w2 = pickle.loads(pickle.dumps(w))
print("after round trip:", type(w2).__name__, callable(w2), w2(1))
