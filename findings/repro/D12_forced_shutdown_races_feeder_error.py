"""D12 (C06, C20): the forced-shutdown loop `while pending: pending.popitem()` races with the feeder's error hook.

History: a task whose arguments fail to pickle is being serialised by the feeder thread when
shutdown(kill_workers=True) arrives.  The manager thread evaluates `while self.pending_work_items:`
(one item), is descheduled, the feeder's error hook pops that item (and fails its future), the manager
resumes with `popitem()` on an empty dict: KeyError kills the manager thread before kill_workers():
the workers are never killed, the queues never closed.

The descheduling is modelled by a dict subclass whose truth test sleeps (after computing its answer)
when it is evaluated by the manager thread inside flag_executor_shutting_down.

Prints DEFECT (exit 1) if a worker survives the forced shutdown, ok (exit 0) otherwise.
"""
import os
import sys
import threading
import time

import psutil

from loky.process_executor import ProcessPoolExecutor


class SlowTruth(dict):
    def __len__(self):
        n = dict.__len__(self)
        f = sys._getframe(1)
        if n and f.f_code.co_name == "flag_executor_shutting_down":
            time.sleep(1.5)  # the manager thread is descheduled between the test and popitem()
        return n


class FailsSlowly:
    def __reduce__(self):
        time.sleep(1.0)  # still being pickled by the feeder when the forced shutdown arrives
        raise ValueError("cannot pickle this")


def ident(x):
    return x


if __name__ == "__main__":
    e = ProcessPoolExecutor(2)
    d = SlowTruth()
    e._pending_work_items = d
    e._call_queue.pending_work_items = d
    e.submit(int).result()
    workers = [p.pid for p in e._processes.values()]
    f = e.submit(ident, FailsSlowly())
    time.sleep(0.3)
    t = threading.Thread(target=e.shutdown, kwargs=dict(kill_workers=True))
    t.start()
    t.join(20)
    time.sleep(1)
    alive = [p for p in workers if psutil.pid_exists(p) and psutil.Process(p).status() != psutil.STATUS_ZOMBIE]
    print("future:", f.exception(timeout=10).__class__.__name__, "| shutdown returned:", not t.is_alive(), "| workers alive:", alive)
    sys.stdout.flush()
    if alive or t.is_alive():
        print("DEFECT: forced shutdown left workers alive")
        sys.stdout.flush()
        for p in alive:
            try:
                os.kill(p, 9)
            except OSError:
                pass
        os._exit(1)
    print("ok")
    sys.stdout.flush()
    os._exit(0)
