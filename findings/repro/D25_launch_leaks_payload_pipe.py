"""D25 -- Popen._launch leaks the parent's write end of the payload pipe when fork_exec raises.

`_launch` creates two pipes; its finally clause closes the two child ends and gives the sentinel (parent_r) a closing
finaliser, but parent_w is only ever closed by the `with os.fdopen(parent_w)` block that is reached after a successful
fork_exec.  Any failure of the launch (here: an env= value with an embedded NUL, which execve refuses with ValueError;
EAGAIN / EMFILE do the same) leaves one descriptor open in the parent per attempt.

Run:  PYTHONPATH=<tree> /venv/bin/python D25_launch_leaks_payload_pipe.py     exit 1 = defect present, 0 = absent
"""
import gc
import os
import sys

from loky.backend import get_context


def nfds():
    return len(os.listdir("/proc/self/fd"))


def attempt(ctx):
    p = ctx.Process(target=print, args=("never runs",), env={"FOO": "a\0b"})
    try:
        p.start()
    except ValueError:
        pass
    else:
        p.join()
        raise SystemExit("the launch was expected to fail (embedded NUL in env)")
    del p
    gc.collect()


def main():
    ctx = get_context("loky")
    attempt(ctx)          # first attempt also starts the resource tracker (its pipe stays open, by design)
    base = nfds()
    for _ in range(5):
        attempt(ctx)
    leaked = nfds() - base
    if leaked:
        print(f"FAIL: {leaked} descriptor(s) leaked by 5 failed launches")
        return 1
    print("PASS: failed launches leak no descriptor")
    return 0


if __name__ == "__main__":
    sys.exit(main())
