"""D7: failing every pending future raises InvalidStateError on a cancelled one and kills the manager.

History: two long tasks occupy the only worker / the call queue; more are queued; one queued
future is cancelled (cancel() returns True); then
  (a) shutdown(kill_workers=True)        -> flag_executor_shutting_down -> set_exception on the cancelled future
  (b) the worker is SIGKILLed            -> terminate_broken            -> set_exception on the cancelled future
In both cases concurrent.futures raises InvalidStateError in the manager thread, which dies:
the remaining futures stay pending and the workers are neither killed nor reaped.
"""
import os, sys, time, signal, threading
from concurrent.futures import TimeoutError
from loky.process_executor import ProcessPoolExecutor


def run(mode):
    e = ProcessPoolExecutor(1)
    fs = [e.submit(time.sleep, 30) for _ in range(8)]
    time.sleep(1.0)
    victim = fs[-1]
    ok = victim.cancel()
    print(mode, "cancel() ->", ok, flush=True)
    t0 = time.time()
    if mode == "kill":
        th = threading.Thread(target=lambda: e.shutdown(kill_workers=True)); th.start(); th.join(10)
        hung = th.is_alive()
    else:
        pid = next(iter(e._processes))
        os.kill(pid, signal.SIGKILL)
        hung = False
    time.sleep(3)
    states = [f._state for f in fs]
    mgr_alive = any(t.name == "ExecutorManagerThread" and t.is_alive() for t in threading.enumerate())
    unresolved = [s for s in states if s in ("PENDING", "RUNNING")]
    print(mode, "states:", states, "manager alive:", mgr_alive, "shutdown hung:", hung, flush=True)
    return 1 if unresolved else 0


if __name__ == "__main__":
    rc = run(sys.argv[1] if len(sys.argv) > 1 else "kill")
    print("RESULT:", "DEFECT (futures left unresolved)" if rc else "ok", flush=True)
    sys.stdout.flush()
    os.killpg(0, 9)
