"""D24 -- loky's posix Popen has no kill(): multiprocessing's Process.kill() delegates to self._popen.kill(), so killing a
LokyProcess raises AttributeError.  loky itself calls process.kill() in _kill_process_tree_without_psutil, as the fallback
when the process tree cannot be listed (no psutil and pgrep missing / failing): the error escapes on the executor manager
thread and the worker survives.

Run:  PYTHONPATH=<tree> /venv/bin/python D24_process_kill_attributeerror.py     exit 1 = defect present, 0 = absent
"""
import sys
import time
import warnings

from loky.backend import get_context
import loky.backend.utils as U


def main():
    ctx = get_context("loky")
    p = ctx.Process(target=time.sleep, args=(60,))
    p.start()
    time.sleep(0.5)
    bad = []
    # the path loky takes when the descendants cannot be listed
    orig = U._posix_recursive_kill

    def no_pgrep(pid):
        raise FileNotFoundError("pgrep")
    U._posix_recursive_kill = no_pgrep
    try:
        with warnings.catch_warnings():
            warnings.simplefilter("ignore")
            U._kill_process_tree_without_psutil(p)
    except AttributeError as exc:
        bad.append(f"_kill_process_tree_without_psutil raised {exc!r}")
    finally:
        U._posix_recursive_kill = orig
    p.join(3)
    if p.is_alive():
        bad.append("the worker process is still alive after the fallback kill")
        p.terminate()
        p.join(5)
    if bad:
        print("FAIL: " + "; ".join(bad))
        return 1
    print(f"PASS: fallback kill worked, exitcode={p.exitcode}")
    return 0


if __name__ == "__main__":
    sys.exit(main())
