"""D13 (C01, C02): a worker killed while it is writing a large result leaves the manager blocked in recv() forever.

History: a task returns a result much larger than the pipe buffer.  The worker has written the length header and part of
the body when it is SIGKILLed (OOM killer, ...).  The manager thread was woken by the readable result pipe and is inside
result_reader.recv(), waiting for the rest of the message.  The write end of that pipe is also held by the parent itself and
by the other workers, so no EOF ever arrives: the manager never looks at the sentinels again, the pool is never flagged
broken, every pending future hangs.

Prints DEFECT (exit 1) if the future is still unresolved 20 s after the kill, ok (exit 0) if it failed with TerminatedWorkerError.
"""
import os
import signal
import sys
import time
from concurrent.futures import TimeoutError

from loky.process_executor import ProcessPoolExecutor

FLAG = "/tmp/D13_%d.flag" % os.getpid()


class Big:
    """Pickles to ~400 MB; announces (through a file) the moment its pickling is done, i.e. just before the send starts."""
    def __reduce__(self):
        open(FLAG, "w").close()
        return (bytes, (b"x" * 400_000_000,))


def task():
    return Big()


if __name__ == "__main__":
    e = ProcessPoolExecutor(2)
    e.submit(int).result()
    f = e.submit(task)
    t0 = time.time()
    while not os.path.exists(FLAG) and time.time() - t0 < 60:
        time.sleep(0.005)
    time.sleep(float(sys.argv[1]) if len(sys.argv) > 1 else 0.25)   # the worker is now somewhere inside send_bytes
    victims = [p.pid for p in e._processes.values()]
    # kill the worker that is sending (the one using CPU / the only busy one): kill both candidates' sender by checking the flag owner is unknown -> kill the busy one
    import psutil
    busy = max(victims, key=lambda p: psutil.Process(p).memory_info().rss)
    os.kill(busy, signal.SIGKILL)
    try:
        r = f.result(timeout=20)
        print("result of", len(r), "bytes arrived (the kill came too late: rerun with a smaller delay)")
        code = 2
    except TimeoutError:
        print("DEFECT: future still pending 20 s after the worker was SIGKILLed mid-send; broken flag:", e._flags.broken)
        code = 1
    except Exception as ex:
        print("ok: future failed with", type(ex).__name__)
        code = 0
    try:
        os.unlink(FLAG)
    except OSError:
        pass
    sys.stdout.flush()
    os.killpg(0, 9) if False else os._exit(code)
