"""D10 (C13, C11): the tracker's end-of-life sweep is aborted by a warning turned into an error.

History: a process tree runs with warnings as errors (-W error / PYTHONWARNINGS=error; loky starts its
resource tracker with the parent's interpreter flags).  It owns three loky semaphores A, B, C.  A has
already been unlinked but is still registered (the window between sem_unlink and unregister in
SemLock._cleanup, or any cleanup function that fails).  The tree is SIGKILLed.  The tracker sweeps:
the cleanup of A fails, the `except Exception` handler reports it with warnings.warn, which *raises*
under -W error, inside the handler: the sweep is left and B and C stay in /dev/shm forever.

Prints DEFECT (exit 1) if B or C outlive the tree, ok (exit 0) otherwise.
"""
import os
import subprocess
import sys
import time

CHILD = r"""
import os, signal, sys
from loky.backend import get_context
from _multiprocessing import sem_unlink
ctx = get_context("loky")
sems = [ctx.Semaphore(1) for _ in range(3)]
names = [s._semlock.name for s in sems]
sem_unlink(names[0])             # A: gone from the kernel, still registered with the tracker
sys.stdout.write(" ".join(names) + "\n"); sys.stdout.flush()
os.kill(os.getpid(), signal.SIGKILL)
"""

if __name__ == "__main__":
    env = dict(os.environ)
    p = subprocess.run([sys.executable, "-W", "error", "-c", CHILD], stdout=subprocess.PIPE, stderr=subprocess.PIPE, env=env, timeout=60)
    names = p.stdout.decode().split()
    assert len(names) == 3, (p.stdout, p.stderr)
    paths = ["/dev/shm/sem." + n.lstrip("/") for n in names]
    deadline = time.time() + 10
    while time.time() < deadline and any(os.path.exists(x) for x in paths[1:]):
        time.sleep(0.1)
    left = [x for x in paths[1:] if os.path.exists(x)]
    for x in left:  # do not litter: remove exactly the semaphores this script created
        os.unlink(x)
    if left:
        print("DEFECT: semaphores outlived their SIGKILLed tree:", left)
        sys.exit(1)
    print("ok: every remaining semaphore was unlinked by the tracker")
