"""D21 (C01, C04, C05, C08): an EPIPE raised while *pickling* a task silently kills the call-queue feeder thread.

`Queue._feed` gives up silently (`return`) on any exception whose errno is EPIPE when `_ignore_epipe` is set (the executor sets
it: a killed worker makes send_bytes fail with EPIPE).  The handler also covers `dumps(obj)`: a task argument whose `__reduce__`
raises BrokenPipeError (an object talking to a closed socket / subprocess pipe) ends the feeder thread: that future and every
later one never resolve, the executor is not flagged broken, shutdown(wait=True) hangs.

usage: D21_feeder_epipe_from_user_reduce.py      prints DEFECT (exit 1) or ok (exit 0)
"""
import errno
import os
import sys
from concurrent.futures import TimeoutError

from loky.process_executor import ProcessPoolExecutor


class EpipeAtPickle:
    def __reduce__(self):
        raise BrokenPipeError(errno.EPIPE, "raised by the task's own __reduce__")


def ident(x):
    return 1


def main():
    ex = ProcessPoolExecutor(max_workers=2, timeout=60)
    assert ex.submit(ident, 0).result(timeout=30) == 1
    bad = ex.submit(ident, EpipeAtPickle())
    later = ex.submit(ident, 2)
    try:
        bad.result(timeout=10)
        first = "returned a result?"
    except TimeoutError:
        first = "never resolved"
    except Exception as e:  # noqa
        first = f"failed with {type(e).__name__}"
    try:
        later.result(timeout=10)
        second = "ok"
    except TimeoutError:
        second = "never resolved"
    except Exception as e:  # noqa
        second = f"failed with {type(e).__name__}"
    feeder = getattr(ex._call_queue, "_thread", None)
    bad_ = first == "never resolved" or second != "ok"
    print(("DEFECT: " if bad_ else "ok: ") + f"task whose argument raises BrokenPipeError(EPIPE) at pickling: {first}; the next task: {second}; "
          f"feeder thread alive: {feeder.is_alive() if feeder else None}; broken flag: {ex._flags.broken}")
    sys.stdout.flush()
    os._exit(1 if bad_ else 0)


if __name__ == "__main__":
    main()
