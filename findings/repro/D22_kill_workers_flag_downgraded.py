"""D22 (C06): a later plain shutdown() cancels a pending shutdown(kill_workers=True).

`_ExecutorFlags.flag_as_shutting_down(kill_workers)` stores the argument whenever it is not None: `shutdown(wait=False,
kill_workers=True)` followed by any `shutdown()` with the default `kill_workers=False` (the exit of a `with` block, an
atexit-style clean-up, another thread) before the executor manager thread has looked at the flag resets it to False.  The
forced shutdown silently becomes a graceful one: it lasts as long as the running tasks, no future fails with
ShutdownExecutorError, no worker is killed.

The manager thread is kept busy by a done-callback (2 s) so that both calls land before it reads the flag.

usage: D22_kill_workers_flag_downgraded.py      prints DEFECT (exit 1) or ok (exit 0)
"""
import os
import sys
import time
from concurrent.futures import TimeoutError

from loky.process_executor import ProcessPoolExecutor, ShutdownExecutorError


def quick():
    return 1


def long_task():
    time.sleep(40)
    return 2


def main():
    ex = ProcessPoolExecutor(max_workers=2, timeout=60)
    long_f = ex.submit(long_task)
    time.sleep(1.0)
    f = ex.submit(quick)
    f.add_done_callback(lambda _: time.sleep(2.0))      # runs on the executor manager thread
    time.sleep(0.7)                                       # the manager is inside the callback now
    t0 = time.time()
    ex.shutdown(wait=False, kill_workers=True)
    ex.shutdown(wait=False)                               # e.g. the exit of a `with` block / a generic clean-up
    try:
        long_f.result(timeout=15)
        verdict, rc = "DEFECT: the long task returned a result?", 1
    except ShutdownExecutorError:
        verdict, rc = f"ok: the running task was failed with ShutdownExecutorError {time.time() - t0:.1f} s after shutdown(kill_workers=True)", 0
    except TimeoutError:
        verdict, rc = ("DEFECT: 15 s after shutdown(kill_workers=True) the 40 s task is still running and its future pending: "
                       f"the kill_workers flag is {ex._flags.kill_workers}"), 1
    print(verdict)
    sys.stdout.flush()
    os._exit(rc)


if __name__ == "__main__":
    main()
